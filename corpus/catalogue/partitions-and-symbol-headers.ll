; expect: accepted
; partitions on every kind of global value; thread-local and unnamed_addr aliases and ifuncs
@g = global i32 0, partition "part1"
@h = thread_local(localexec) global i32 1, section ".tdata", partition "part 2", align 8
@a1 = alias i32, i32* @g, partition "part1"
@a2 = weak hidden thread_local(initialexec) unnamed_addr alias i32, i32* @h
@a3 = private local_unnamed_addr alias i32, i32* @g, partition "p"
@a4 = dso_local thread_local alias i32, i32* @h
@i1 = ifunc void (), void ()* ()* @resolver, partition "part1"
@i2 = weak_odr dso_local unnamed_addr ifunc void (), void ()* ()* @resolver
@i3 = internal local_unnamed_addr ifunc void (), void ()* ()* @resolver

define void @f() partition "part1" {
  ret void
}

define internal void ()* @resolver() {
  ret void ()* @f
}
