; expect: accepted
; call, invoke and callbr with every optional clause
declare i32 @callee(i32, ...)
declare fastcc zeroext i8 @fc(i32 inreg)
declare i32 @__gxx_personality_v0(...)
declare void @vf() addrspace(1)
declare token @llvm.call.preallocated.setup(i32)
declare i8* @llvm.call.preallocated.arg(token, i32)

define i32 @f(i32 %x, i8* %p) personality i8* bitcast (i32 (...)* @__gxx_personality_v0 to i8*) {
entry:
  %a = tail call fastcc zeroext i8 @fc(i32 inreg %x) #0
  %b = notail call i32 (i32, ...) @callee(i32 %x, i8* nonnull %p, i32 7) [ "deopt"(i32 %x, i8* %p), "tag"() ]
  %c = call i32 (i32, ...) @callee(i32 %x)
  ret i32 %c
}

define void @g(i32 %x) personality i8* bitcast (i32 (...)* @__gxx_personality_v0 to i8*) {
entry:
  %r = invoke fastcc zeroext i8 @fc(i32 inreg %x) #0 [ "deopt"(i32 %x) ]
          to label %ok unwind label %lp
ok:
  invoke addrspace(1) void @vf() to label %ok2 unwind label %lp
ok2:
  ret void
lp:
  %e = landingpad { i8*, i32 } cleanup catch i8* null filter [1 x i8*] [i8* null]
  resume { i8*, i32 } %e
}

define i32 @h(i32 %x) {
entry:
  %r = callbr cc 10 zeroext i32 asm sideeffect "", "=r,r,X,~{memory}"(i32 %x, i8* blockaddress(@h, %side)) #0 [ "tag"(i32 %x) ]
          to label %fall [label %side]
fall:
  %u = add i32 %r, 1
  callbr void asm "", "X"(i8* blockaddress(@h, %side2)) to label %side [label %side2]
side:
  ret i32 1
side2:
  ret i32 0
}

attributes #0 = { nounwind }
