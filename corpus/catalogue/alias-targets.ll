; expect: accepted
; alias targets spelled with each constant expression LLVM allows there
@g = global i32 0
@arr = global [4 x i32] zeroinitializer
@h = addrspace(1) global i32 0
@a1 = alias i32, inttoptr (i64 ptrtoint (i32* @g to i64) to i32*)
@a2 = alias i32, addrspacecast (i32 addrspace(1)* @h to i32*)
@a3 = alias i8, bitcast (i32* @g to i8*)
@a4 = alias i32, getelementptr inbounds ([4 x i32], [4 x i32]* @arr, i64 0, i64 2)
@a5 = alias i32, i32* @a4
@a6 = alias i32, getelementptr (i32, i32* @a1, i32 1)
