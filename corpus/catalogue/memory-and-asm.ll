; expect: accepted
; stack slots, atomics with scopes, inline assembly flags
define void @f(i32* %p, i32 %n) {
  %a = alloca inalloca i32
  %b = alloca inalloca i32, i32 %n, align 16
  %c = alloca i32, i32 2, align 8, addrspace(5)
  %d = alloca swifterror i8*
  %l1 = load atomic i32, i32* %p syncscope("singlethread") acquire, align 4
  %l2 = load atomic volatile i32, i32* %p syncscope("agent-one") monotonic, align 4
  store atomic i32 %l1, i32* %p syncscope("singlethread") release, align 4
  store atomic volatile i32 %l2, i32* %p seq_cst, align 4
  fence syncscope("wg") seq_cst
  fence acq_rel
  %x = cmpxchg weak volatile i32* %p, i32 %l1, i32 %l2 syncscope("a b") acq_rel monotonic, align 4
  %y = atomicrmw volatile umax i32* %p, i32 1 syncscope("singlethread") seq_cst, align 4
  %z = atomicrmw fadd float* undef, float 1.0 monotonic
  call void asm sideeffect alignstack inteldialect unwind "nop", "~{dirflag},~{fpsr},~{flags}"()
  call void asm unwind "", ""()
  %w = call i32 asm inteldialect "mov $0, $1", "=r,r"(i32 %n)
  ret void
}
