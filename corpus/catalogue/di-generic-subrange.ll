; DIGenericSubrange is not in the grammar of github.com/llir/ll: a rejection (an error, not a crash) is what the property asks for
!llvm.dbg.cu = !{!0}
!llvm.module.flags = !{!3}
!0 = distinct !DICompileUnit(language: DW_LANG_Fortran95, file: !1, emissionKind: FullDebug, retainedTypes: !5)
!1 = !DIFile(filename: "a.f90", directory: "/d")
!3 = !{i32 2, !"Debug Info Version", i32 3}
!4 = !DIBasicType(name: "integer", size: 32, encoding: DW_ATE_signed)
!5 = !{!6}
!6 = !DICompositeType(tag: DW_TAG_array_type, baseType: !4, elements: !7, rank: !DIExpression(DW_OP_push_object_address, DW_OP_deref))
!7 = !{!8}
!8 = !DIGenericSubrange(lowerBound: !DIExpression(DW_OP_push_object_address), upperBound: !DIExpression(DW_OP_push_object_address), stride: !DIExpression(DW_OP_push_object_address))
