; named types of every non-struct kind (aliases for LLVM)
%i = type i32
%f = type double
%p = type i32*
%v = type <4 x i32>
%sv = type <vscale x 2 x i64>
%a = type [3 x i8]
%fn = type i32 (i32)
%x = type x86_mmx
%m = type metadata

declare void @ret_void(%i, %f, %p, %v, %sv, %a, %fn*, %x)
declare void @llvm.foo(%m)

define %i @g(%i %q, %v %w, %sv %s) {
  %r = add %i %q, 1
  %e = extractelement %v %w, i32 0
  %t = add %sv %s, %s
  ret %i %r
}
