; expect: accepted
; numeric calling convention 0, metadata operands, null metadata fields, flag sets with and without members
declare cc 0 void @c0()
declare cc 75 void @c75()
declare void @llvm.dbg.value(metadata, metadata, metadata)
declare void @llvm.md(metadata)

@e1 = global [0 x i32] []
@e2 = global [0 x i32] zeroinitializer
@e3 = global [0 x i8] c""
@e4 = global { [0 x i32], {} } { [0 x i32] [], {} {} }

define void @f(i32 %x) !dbg !5 {
  call void @llvm.dbg.value(metadata i32 %x, metadata !8, metadata !DIExpression(DW_OP_plus_uconst, 1, DW_OP_stack_value)), !dbg !9
  call void @llvm.dbg.value(metadata !DIArgList(i32 %x, i32 7), metadata !8, metadata !DIExpression(DW_OP_LLVM_arg, 0, DW_OP_LLVM_arg, 1, DW_OP_plus)), !dbg !9
  call void @llvm.md(metadata !{null, !"s", i32 1, !{}})
  call void @llvm.md(metadata !"str")
  call void @llvm.md(metadata i32* null)
  ret void, !dbg !9
}

!llvm.dbg.cu = !{!0}
!llvm.module.flags = !{!3}
!nm = !{!10, !11, !12}

!0 = distinct !DICompileUnit(language: DW_LANG_C99, file: !1, emissionKind: FullDebug)
!1 = !DIFile(filename: "a.c", directory: "/")
!3 = !{i32 2, !"Debug Info Version", i32 3}
!4 = !DIBasicType(name: "int", size: 32, encoding: DW_ATE_signed, flags: 0)
!5 = distinct !DISubprogram(name: "f", scope: !1, file: !1, line: 1, type: !6, spFlags: DISPFlagDefinition, unit: !0)
!6 = !DISubroutineType(flags: DIFlagLValueReference, cc: DW_CC_normal, types: !7)
!7 = !{null, !4}
!8 = !DILocalVariable(name: "x", arg: 1, scope: !5, file: !1, line: 1, type: !4)
!9 = !DILocation(line: 1, scope: !5)
!10 = !{null}
!11 = !{!10, null, !"a", i64 -1, double 1.5, i8* null, void (i32)* @f}
!12 = distinct !{!12, !11}
