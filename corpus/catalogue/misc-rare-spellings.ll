; expect: accepted
; thread-local ifunc, elementtype, hexadecimal alignments, named label and token types
%l = type label
%t = type token
%sv = type <vscale x 4 x i32>

@g = global i32 0, align u0x10
@i = thread_local ifunc void (), void ()* ()* @resolver
@j = thread_local(localdynamic) local_unnamed_addr ifunc void (), void ()* ()* @resolver

declare void @llvm.foo(%t)
declare i8* @llvm.preserve.array.access.index.p0i8.p0i8(i8*, i32 immarg, i32 immarg)

define internal void ()* @resolver() {
  ret void ()* null
}

define %sv @f(i8* align u0x8 %p, %sv %v) {
  %a = alloca i32, align u0x4
  %b = call i8* @llvm.preserve.array.access.index.p0i8.p0i8(i8* elementtype(i8) %p, i32 0, i32 1)
  %w = add %sv %v, %v
  ret %sv %w
}

; several attachments of one kind on global objects (CFI / whole-program-vtable builds emit `!type` like this)
@vt = constant [2 x i8*] zeroinitializer, !type !0, !type !1, !type !2, !foo !0
declare !type !0 !type !1 void @decl()
define void @def() !type !1 !type !2 !foo !1 {
  ret void
}
!0 = !{i64 16, !"_ZTS1A"}
!1 = !{i64 16, !"_ZTS1B"}
!2 = !{i64 16, !"_ZTSM1BFvvE.virtual"}
