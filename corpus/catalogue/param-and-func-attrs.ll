; expect: accepted
; every spelling form of parameter, return and function attributes
%T = type { i32, i8 }

declare void @p1(%T* sret(%T) %d, i8* align 8 %a, %T* byval(%T) align 4 %b, i32* byref(i32) %c)
declare void @p2(i32* inalloca(i32) %a)
declare void @p3(i32* preallocated(i32) %a)
declare void @p4(i32 "strattr" %a, i32 "key"="value" %b, i8* alignstack(8) %c)
declare void @p5(i8* dereferenceable(16) %a, i8* dereferenceable_or_null(4) %b, i32 zeroext %c, i32 signext %d, i32 inreg %e)
declare void @p6(i8* nest %a, i8* noalias nocapture nofree nonnull noundef readonly %b, i8* writeonly %c, i8* readnone %d, i8** swifterror %e)
declare void @p7(i8* swiftself %a, i8* swiftasync %b) "never-called"
declare void @llvm.p8(i32 immarg %c)
declare noalias nonnull noundef dereferenceable(8) i8* @r1()
declare zeroext i8 @r2()
declare signext inreg i8 @r3()
declare dereferenceable_or_null(8) i8* @r4()

declare i8* @a1(i32) allocsize(0)
declare i8* @a2(i32, i32) allocsize(0, 1)
declare void @a3() vscale_range(2,4)
declare void @a4() vscale_range(8)
declare void @a5() alignstack(16)
declare void @a6() "str" "k"="v" "k2"=""
declare i8* @a7(i32) #0
declare void @a8() #1
declare void @a9() align 32 #2
declare void @a10() nounwind readnone willreturn nofree nosync mustprogress
declare void @a11() uwtable
declare void @a12() cold hot
declare void @a13() noinline optnone
declare void @a14() sanitize_address sanitize_hwaddress sanitize_memory sanitize_thread sanitize_memtag
declare void @a15() ssp sspreq sspstrong safestack shadowcallstack
declare void @a16() nocf_check noduplicate nomerge noprofile noredzone noreturn norecurse nonlazybind null_pointer_is_valid
declare void @a17() minsize optsize optforfuzzing returns_twice speculative_load_hardening strictfp
declare void @a18() inaccessiblememonly
declare void @a19() inaccessiblemem_or_argmemonly
declare void @a20() argmemonly readonly
declare void @a21() convergent inlinehint alwaysinline
declare void @a22() nocallback disable_sanitizer_instrumentation nosanitize_coverage

attributes #0 = { alignstack=16 allocsize(0) "g"="h" nounwind }
attributes #1 = { vscale_range(1,16) "only-str" }
attributes #2 = { align=8 }
