; expect: accepted
; debug-info fields that compilers emit rarely (Fortran arrays, split DWARF, C++ thunks, annotations)
@g = global i32 0, !dbg !30

define void @f() !dbg !10 {
  ret void, !dbg !40
}

!llvm.dbg.cu = !{!0}
!llvm.module.flags = !{!3}

!0 = distinct !DICompileUnit(language: DW_LANG_Fortran95, file: !1, producer: "p", isOptimized: true, flags: "-O2", runtimeVersion: 2, splitDebugFilename: "a.dwo", emissionKind: FullDebug, enums: !2, retainedTypes: !2, globals: !35, imports: !2, macros: !50, dwoId: 42, splitDebugInlining: true, debugInfoForProfiling: true, nameTableKind: GNU, rangesBaseAddress: true, sysroot: "/", sdk: "sdk")
!1 = !DIFile(filename: "a.f90", directory: "/d", checksumkind: CSK_MD5, checksum: "00000000000000000000000000000000", source: "src")
!2 = !{}
!3 = !{i32 2, !"Debug Info Version", i32 3}
!4 = !DIBasicType(name: "integer", size: 32, encoding: DW_ATE_signed)
!5 = !DISubroutineType(types: !6)
!6 = !{null}
!7 = !{!8}
!8 = !{!"key", !"value"}
!9 = !{!4}
!10 = distinct !DISubprogram(name: "f", linkageName: "_f", scope: !1, file: !1, line: 1, type: !5, scopeLine: 1, containingType: !20, virtualIndex: 2, thisAdjustment: -8, flags: DIFlagPrototyped | DIFlagThunk, spFlags: DISPFlagDefinition | DISPFlagOptimized | DISPFlagLocalToUnit | DISPFlagPureVirtual, unit: !0, templateParams: !11, declaration: !13, retainedNodes: !2, thrownTypes: !9, annotations: !7)
!11 = !{!12}
!12 = !DITemplateTypeParameter(name: "T", type: !4, defaulted: true)
!13 = !DISubprogram(name: "f", scope: !20, file: !1, line: 1, type: !5, scopeLine: 1, spFlags: 0)
!14 = !DILocalVariable(name: "n", arg: 1, scope: !10, file: !1, line: 1, type: !4, flags: DIFlagArtificial, align: 32, annotations: !7)
!15 = !DIExpression(DW_OP_push_object_address, DW_OP_deref)
!20 = !DICompositeType(tag: DW_TAG_array_type, name: "arr", file: !1, line: 2, baseType: !4, size: 64, align: 32, offset: 8, elements: !21, runtimeLang: DW_LANG_Fortran95, vtableHolder: !4, templateParams: !11, identifier: "id", dataLocation: !15, associated: !15, allocated: !15, rank: 3, annotations: !7)
!21 = !{!22}
!22 = !DISubrange(lowerBound: !15, upperBound: !14, stride: !15)
!24 = !DICompositeType(tag: DW_TAG_variant_part, scope: !20, file: !1, size: 64, discriminator: !25, elements: !2)
!25 = !DIDerivedType(tag: DW_TAG_member, name: "d", scope: !24, file: !1, line: 3, baseType: !4, size: 8, align: 8, offset: 0, flags: DIFlagArtificial, extraData: i64 3, annotations: !7)
!26 = !DICompositeType(tag: DW_TAG_array_type, baseType: !4, elements: !2, rank: !15)
!27 = !DIStringType(name: "character(*)", stringLength: !14, stringLengthExpression: !15, stringLocationExpression: !15, size: 32, align: 8, encoding: DW_ATE_ASCII)
!28 = !DIStringType(tag: DW_TAG_string_type, name: "s", size: 8)
!30 = !DIGlobalVariableExpression(var: !31, expr: !DIExpression())
!31 = distinct !DIGlobalVariable(name: "g", linkageName: "_g", scope: !0, file: !1, line: 4, type: !4, isLocal: true, isDefinition: true, declaration: !25, templateParams: !11, align: 32, annotations: !7)
!35 = !{!30}
!36 = !DIImportedEntity(tag: DW_TAG_imported_module, name: "m", scope: !0, entity: !37, file: !1, line: 5, elements: !2)
!37 = !DIModule(scope: !0, name: "mod", configMacros: "-DX", includePath: "/i", apinotes: "n", file: !1, line: 6, isDecl: true)
!38 = !DICommonBlock(scope: !10, declaration: !31, name: "blk", file: !1, line: 7)
!39 = !DILabel(scope: !10, name: "l", file: !1, line: 8)
!40 = !DILocation(line: 1, column: 2, scope: !41, inlinedAt: !42, isImplicitCode: true)
!41 = !DILexicalBlockFile(scope: !43, file: !1, discriminator: 3)
!42 = distinct !DILocation(line: 9, scope: !10)
!43 = distinct !DILexicalBlock(scope: !10, file: !1, line: 1, column: 1)
!50 = !{!51}
!51 = !DIMacroFile(type: DW_MACINFO_start_file, line: 0, file: !1, nodes: !52)
!52 = !{!53, !54}
!53 = !DIMacro(type: DW_MACINFO_define, line: 1, name: "A", value: "1")
!54 = !DIMacro(type: DW_MACINFO_undef, line: 2, name: "B")
!55 = !DIObjCProperty(name: "p", file: !1, line: 1, setter: "s", getter: "g", attributes: 7, type: !4)
!56 = !DITemplateValueParameter(tag: DW_TAG_GNU_template_template_param, name: "V", type: !4, defaulted: true, value: i32 7)
!57 = !DINamespace(name: "ns", scope: null, exportSymbols: true)
!58 = !DIEnumerator(name: "e", value: 18446744073709551615, isUnsigned: true)
!59 = !GenericDINode(tag: DW_TAG_lexical_block, header: "h", operands: {!4, null, !"s"})
!60 = !DIDerivedType(tag: DW_TAG_pointer_type, baseType: !4, size: 64, dwarfAddressSpace: 1)
!61 = !DISubrange(count: 4, lowerBound: 1)
!keep = !{!60, !61, !14, !20, !24, !26, !27, !28, !36, !38, !39, !55, !56, !57, !58, !59}
