; expect: accepted
; debug-info enum fields spelled with numbers (LLVM accepts both forms), with and without a keyword for the number
!llvm.dbg.cu = !{!0}
!llvm.module.flags = !{!3}
!keep = !{!4, !5, !6, !8, !9, !10, !14}

!0 = distinct !DICompileUnit(language: 12, file: !1, emissionKind: 1, macros: !12, nameTableKind: 1)
!1 = !DIFile(filename: "a.c", directory: "/")
!3 = !{i32 2, !"Debug Info Version", i32 3}
!4 = !DIBasicType(tag: 36, name: "int", size: 32, encoding: 5)
!5 = !DIBasicType(name: "odd", size: 32, encoding: 200, flags: 3)
!6 = !DISubroutineType(cc: 1, types: !7)
!7 = !{null}
!8 = !DIDerivedType(tag: 15, baseType: !4, size: 64)
!9 = !DICompositeType(tag: 19, name: "s", file: !1, size: 32, flags: 4, runtimeLang: 4, elements: !7)
!10 = distinct !DISubprogram(name: "f", scope: !1, file: !1, type: !6, virtuality: 1, virtualIndex: 0, spFlags: 8, unit: !0)
!12 = !{!13}
!13 = !DIMacro(type: 1, line: 1, name: "A", value: "1")
!14 = !DICompositeType(tag: DW_TAG_structure_type, name: "t", file: !1, size: 32, runtimeLang: 40, elements: !7)
