; string attributes and `align` in return position are not in the grammar of github.com/llir/ll (open findings): an error is the expected answer
declare "retstr" "k"="v" i8* @r5()
declare align 8 i8* @r6()
