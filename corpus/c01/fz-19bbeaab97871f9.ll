source_filename = "dir/my file.cpp"
%"t0" = type <{ { i1 } addrspace(5)*, i1 addrspace(200)*, i109 (...)* }>
%"T1" = type opaque
$"cd1" = comdat largest
@"odd name 5" = linkonce_odr ifunc float (i8), float (i8)* ()* @"resolver4"
@"ifn7" = internal ifunc float (i8), float (i8)* ()* @"_Z3foo6"
declare dso_local hidden cc 10 float @"f2"(i8 %"dp3") #0 section "IIIIImy sec\22tion"
define private float (i8)* @"resolver4"() {
"entry":
 ret float (i8)* @"f2"
}
define internal float (i8)* @"_Z3foo6"() !my.md !{} !dbg !15 {
"entry":
 ret float (i8)* @"f2", !dbg !DILocation(line: 1, column: 1, scope: !16, isImplicitCode: true)
}
declare void @"llvm.dbg.value"(metadata, metadata, metadata)
attributes #0 = { nounwind }
!x.90 = !{}
!llvm.ident1 = !{}
!llvm.dbg.cu = !{!5}
!llvm.module.flags = !{!24}
!verif.misc = !{!25}
!0 = !{!1}
!1 = !{!{i32 0}, !"hello"}
!2 = !{i1 0, i64 u0x1}
!3 = distinct !{null}
!4 = !DIFile(filename: "T<int>", directory: "x", source: "/tmp/a b")
!5 = distinct !DICompileUnit(language: DW_LANG_Swift, file: !4, flags: "-O2 -g", emissionKind: FullDebug, retainedTypes: !19, imports: !21, splitDebugInlining: true)
!6 = !DIBasicType(tag: DW_TAG_unspecified_type, name: "x", size: 2225, encoding: DW_ATE_signed)
!7 = !DIBasicType(tag: DW_TAG_base_type, name: "\C3\A9", encoding: DW_ATE_float, flags: DIFlagIntroducedVirtual | DIFlagExplicit)
!8 = !DIBasicType(flags: DIFlagBitField)
!9 = !DIStringType(name: "/tmp/a b", stringLengthExpression: !DIExpression(DW_OP_LLVM_fragment, 0, 32), encoding: DW_ATE_ASCII)
!10 = !DIDerivedType(tag: DW_TAG_const_type, file: !4, baseType: !6, size: 5, align: 273, flags: DIFlagExplicit | DIFlagPrototyped | DIFlagProtected)
!11 = !DIDerivedType(tag: DW_TAG_const_type, file: !4, line: 3540, baseType: !8, size: 14, offset: 2001, flags: DIFlagVirtual)
!12 = !DISubroutineType(types: !13)
!13 = !{null}
!14 = !DIModule(scope: !5, name: "main.c", configMacros: "/tmp/a b", file: !4)
!15 = distinct !DISubprogram(name: "fn", scope: !4, file: !4, line: 1, type: !12, scopeLine: 1, spFlags: DISPFlagDefinition, unit: !5, retainedNodes: !18)
!16 = distinct !DILexicalBlock(scope: !15, line: 38, column: 1)
!17 = !DILocalVariable(name: "\C3\A9", scope: !15, file: !4, type: !6, flags: DIFlagObjectPointer | DIFlagSingleInheritance | DIFlagPrivate)
!18 = !{!17}
!19 = !{!6}
!20 = !DIImportedEntity(tag: DW_TAG_imported_declaration, name: "x", scope: !5, line: 2)
!21 = !{!20}
!22 = !DICommonBlock(scope: !15, name: "x")
!23 = !DITemplateValueParameter(tag: DW_TAG_GNU_template_template_param, type: !6, defaulted: false, value: i32 7)
!24 = !{i32 2, !"Debug Info Version", i32 3}
!25 = !{!22, !23}
