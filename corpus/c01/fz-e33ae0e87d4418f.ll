; a comment with "quotes" and %names @x !0

%"t0" = type opaque
; a comment with "quotes" and %names @x !0

$"cd1" = comdat samesize
; a comment with "quotes" and %names @x !0

$"cd2" = comdat nodeduplicate
; a comment with "quotes" and %names @x !0

@0 = global i4 7, align 2
; a comment with "quotes" and %names @x !0

@"_Z3foo5" = hidden addrspace(1) constant <4 x i8> <i8 u0x0, i8 0, i8 undef, i8 poison>, align 16
; a comment with "quotes" and %names @x !0

@"g6" = extern_weak default unnamed_addr global {}, align 1
; a comment with "quotes" and %names @x !0

@"g7" = weak protected thread_local(initialexec) addrspace(3) global i8 u0x0, !dbg !9
; a comment with "quotes" and %names @x !0

@"g.8" = linkonce dso_preemptable constant i1 -1, align 64
; a comment with "quotes" and %names @x !0

@"gepc9" = internal global {}* getelementptr ({}, {}* @"g6", i8 zeroinitializer)
; a comment with "quotes" and %names @x !0

declare extern_weak default arm_aapcs_vfpcc i16 @"f.3"(double, i1 %"dp4") unnamed_addr
; a comment with "quotes" and %names @x !0

attributes #0 = { nounwind }
; a comment with "quotes" and %names @x !0

attributes #3 = { nounwind }
; a comment with "quotes" and %names @x !0

!llvm.dbg.cu = !{!1}
; a comment with "quotes" and %names @x !0

!llvm.module.flags = !{!13}
; a comment with "quotes" and %names @x !0

!verif.misc = !{!14}
; a comment with "quotes" and %names @x !0

!0 = !DIFile(filename: "\C3\A9", directory: "x")
; a comment with "quotes" and %names @x !0

!1 = distinct !DICompileUnit(language: DW_LANG_C_plus_plus_14, file: !0, runtimeVersion: 0, globals: !10, retainedTypes: !11, splitDebugInlining: true, debugInfoForProfiling: true, nameTableKind: Default)
; a comment with "quotes" and %names @x !0

!2 = !DIBasicType(tag: DW_TAG_base_type, flags: DIFlagStaticMember)
; a comment with "quotes" and %names @x !0

!3 = !DIBasicType(tag: DW_TAG_unspecified_type, name: "", size: 192, flags: DIFlagProtected)
; a comment with "quotes" and %names @x !0

!4 = !DIBasicType(tag: DW_TAG_base_type, name: "main.c", size: 2, encoding: DW_ATE_UTF)
; a comment with "quotes" and %names @x !0

!5 = !DIDerivedType(tag: DW_TAG_reference_type, file: !0, baseType: !4, size: 355, align: 39, dwarfAddressSpace: 1)
; a comment with "quotes" and %names @x !0

!6 = !DISubroutineType(flags: DIFlagIntroducedVirtual, types: !7)
; a comment with "quotes" and %names @x !0

!7 = !{}
; a comment with "quotes" and %names @x !0

!8 = distinct !DIGlobalVariable(name: "x", linkageName: "min.c", type: !2, align: 4096)
; a comment with "quotes" and %names @x !0

!9 = !DIGlobalVariableExpression(var: !8, expr: !DIExpression(DW_OP_plus_uconst, 3))
; a comment with "quotes" and %names @x !0

!10 = !{!9}
; a comment with "quotes" and %names @x !0

!11 = !{!4}
; a comment with "quotes" and %names @x !0

!12 = !DITemplateValueParameter(value: i32 8)
; a comment with "quotes" and %names @x !0

!13 = !{i32 2, !"Debug Info Version", i32 3}
; a comment with "quotes" and %names @x !0

!14 = !{!12}
