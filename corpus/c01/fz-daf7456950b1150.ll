%t0 = type { void ()* }
!16 = !DINamespace(name: "", scope: !0)
!llvm.module.flags = !{!26}
!0 = !DIFile(filename: "/tmp/a b", directory: "/tmp/a b")
attributes #0 = { minsize null_pointer_is_valid "no-trapping-math"="true" }
declare protected preserve_allcc void @0(half, i8*, i8* noalias, i8*) sanitize_memtag nocallback null_pointer_is_valid section "my sec\22tion"
module asm ".globl f∆j¶Êéoo"
@g.4 = linkonce dso_preemptable dllexport global i64 u0xC503031E78010B58
attributes #2 = { nounwind }
!13 = !{!12}
!1 = !DIFile(filename: "main.c", directory: "T<int>", source: "int")
!22 = !DIMacro(type: DW_MACINFO_define, line: 3911, name: "r", value: "x")
!20 = !DIGlobalVariableExpression(var: !19, expr: !DIExpression(DW_OP_constu, 42, DW_OP_stack_value))
!8 = !DIDerivedType(tag: DW_TAG_member, name: "m9", scope: !6, line: 3, baseType: !4)
!12 = !DIDerivedType(tag: DW_TAG_member, name: "m13", scope: !11, line: 1677, baseType: !5, size: 3831)
!9 = !DIDerivedType(tag: DW_TAG_member, name: "m10", scope: !6, line: 2617, baseType: !5, size: 5, offset: 1587)
!6 = !DICompositeType(tag: DW_TAG_class_type, line: 396, size: 791, align: 1042, elements: !10, runtimeLang: DW_LANG_C_plus_plus)
!11 = distinct !DICompositeType(tag: DW_TAG_structure_type, name: "foo\22bar", file: !1, line: 0, baseType: !3, align: 601, elements: !13)
!14 = !DISubroutineType(cc: DW_CC_program, types: !15)
!2 = distinct !DICompileUnit(language: DW_LANG_C_plus_plus_14, file: !0, producer: "verif 1.0", isOptimized: false, runtimeVersion: 2, emissionKind: FullDebug, globals: !21, macros: !25, splitDebugInlining: true)
!7 = !DIDerivedType(tag: DW_TAG_member, name: "m8", scope: !6, file: !1, line: 2, baseType: !5, size: 0, align: 1, flags: DIFlagVirtual)
!21 = !{!18, !20}
!18 = !DIGlobalVariableExpression(var: !17, expr: !DIExpression())
@g2 = protected unnamed_addr addrspace(3) global i8 19, section ".data.x", align 2, !dbg !18
!4 = !DIBasicType(tag: DW_TAG_base_type, name: "x", encoding: DW_ATE_unsigned)
!23 = !DIMacroFile(line: 3, file: !0, nodes: !24)
@1 = internal alias i1*, i1** @g3
!10 = !{!7, !8, !9}
@2 = external dllimport local_unnamed_addr global double
!5 = !DIBasicType(tag: DW_TAG_base_type, encoding: DW_ATE_UTF, flags: DIFlagFwdDecl | DIFlagProtected)
!17 = distinct !DIGlobalVariable(name: "int", type: !3, isLocal: true)
declare external i32 @"odd name 1"() #0 align 8
!25 = !{!23}
!19 = distinct !DIGlobalVariable(name: "main.c", linkageName: "\C3\A9", file: !1, line: 1, type: !3, isLocal: false)
module asm "foo: ret # \22x\22"
!15 = !{!11, !11, !3}
!26 = !{i32 2, !"Debug Info Version", i32 3}
!llvm.dbg.cu = !{!2}
!3 = !DIBasicType(tag: DW_TAG_base_type, align: 1893, encoding: DW_ATE_signed, flags: DIFlagPrototyped | DIFlagPrivate | DIFlagAllCallsDescribed)
@g3 = dso_local thread_local(initialexec) local_unnamed_addr global i1* null, section "sec,with,commas", !dbg !20
!24 = !{!22}
