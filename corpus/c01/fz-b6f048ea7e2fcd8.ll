source_filename = "\5C\22q\5C\22.c"
@fnaddr3 = internal global i32 (...)* no_cfi @__gxx_personality_v0, !dbg !39
@ulo4 = internal global i32 0
@ulo.user5 = internal global i32* @ulo4
@ulo.user6 = internal global i32* @ulo4
define private i8* @0(i64) local_unnamed_addr alwaysinline inlinehint "no-trapping-math"="true" align 2 personality i32 (...)* @__gxx_personality_v0 !dbg !14 {
bb1001:
        %v1002 = sub nuw nsw i8 172, poison, !dbg !18
        %v1003 = srem i1 0, true, !dbg !19
        call void (metadata, metadata, metadata) @llvm.dbg.value(metadata i1 %v1003, metadata !15, metadata !DIExpression(DW_OP_deref)), !dbg !20
        indirectbr i8* blockaddress(@0, %1), [label %1]
1:
        %v.1004 = insertelement <8 x i1> <i1 true, i1 true, i1 false, i1 false, i1 zeroinitializer, i1 false, i1 zeroinitializer, i1 poison>, i1 undef, i8 %v1002, !dbg !DILocation(line: 1, column: 6, scope: !14, isImplicitCode: true)
        call void (metadata, metadata, metadata) @llvm.dbg.value(metadata <8 x i1> %v.1004, metadata !15, metadata !DIExpression(DW_OP_deref)), !dbg !21
        %2 = mul i32 2147483647, 0, !dbg !DILocation(line: 139, column: 11, scope: !14)
        call void (metadata, metadata, metadata) @llvm.dbg.value(metadata i32 %2, metadata !15, metadata !DIExpression(DW_OP_constu, 42, DW_OP_stack_value)), !dbg !22
        fence syncscope("singlethread") acquire, !dbg !23
        notail call void (i1* addrspace(1)* addrspace(5)*) @1(i1* addrspace(1)* addrspace(5)* zeroinitializer), !dbg !DILocation(line: 7, column: 1, scope: !14)
        ret i8* bitcast (i32 (...)* @__gxx_personality_v0 to i8*)
}
define linkonce dso_preemptable void @1(i1* addrspace(1)* addrspace(5)* %p.1) null_pointer_is_valid align 2 !dbg !24 {
0:
        %1 = select i1 -1, i1* addrspace(1)* addrspace(5)* %p.1, i1* addrspace(1)* addrspace(5)* %p.1
        call void (metadata, metadata, metadata) @llvm.dbg.value(metadata i1* addrspace(1)* addrspace(5)* %1, metadata !25, metadata !DIExpression(DW_OP_plus_uconst, 0)), !dbg !27
        %2 = callbr i64 () asm sideeffect "", "=r"()
          to label %bb1001 [], !dbg !DILocation(line: 6, column: 1, scope: !24)
bb1001:
        ret void, !dbg !DILocation(line: 1, column: 3, scope: !24, isImplicitCode: true)
}
declare i32 @__gxx_personality_v0(...)
declare i32 @__CxxFrameHandler3(...)
declare void @helper1()
define void @funclet.2() personality i32 (...)* @__CxxFrameHandler3 !dbg !28 {
0:
        invoke void () @helper1()
          to label %ok2002 unwind label %"\01odd name 2001", !dbg !32
"\01odd name 2001":
        %1 = catchswitch within none [label %2, label %h22006] unwind to caller
2:
        %cp2003 = catchpad within %1 [], !dbg !33
        invoke void () @helper1() [ "funclet"(token %cp2003) ]
          to label %hok.2004 unwind label %"\01odd name 2005", !dbg !34
ok2002:
        invoke void () @helper1()
          to label %5 unwind label %3, !dbg !35
3:
        %p2008 = cleanuppad within none [], !dbg !36
        cleanupret from %p2008 unwind to caller
hok.2004:
        catchret from %cp2003 to label %ok2002, !dbg !DILocation(line: 169, column: 80, scope: !29, isImplicitCode: true)
"\01odd name 2005":
        %4 = cleanuppad within %cp2003 [], !dbg !DILocation(line: 17, column: 0, scope: !29)
        cleanupret from %4 unwind to caller
h22006:
        %"\01odd name 2007" = catchpad within %1 []
        catchret from %"\01odd name 2007" to label %ok2002, !dbg !DILocation(line: 123, column: 8, scope: !29)
5:
        ret void, !dbg !37
}
declare void @llvm.dbg.value(metadata, metadata, metadata)
!llvm.dbg.cu = !{!1}
!llvm.module.flags = !{!51}
!verif.misc = !{!52}
!0 = !DIFile(filename: "/tmp/a b", directory: "foo t2bar")
!1 = distinct !DICompileUnit(language: DW_LANG_C99, file: !0, producer: "verif 1.0", globals: !40, retainedTypes: !41, imports: !43, macros: !47, debugInfoForProfiling: true, nameTableKind: GNU)
!2 = !DIBasicType(align: 0, encoding: DW_ATE_float)
!3 = !DIStringType(name: "main.c", align: 3618, encoding: DW_ATE_ASCII)
!4 = distinct !DICompositeType(tag: DW_TAG_union_type, name: "\C3\A9", scope: !1, file: !0, baseType: !2, size: 88, align: 4096, offset: 3617, flags: DIFlagPublic | DIFlagFwdDecl, elements: !8, runtimeLang: DW_LANG_C_plus_plus_14, templateParams: !10, identifier: "main.c")
!5 = !DIDerivedType(tag: DW_TAG_member, name: "m6", scope: !4, line: 1341, baseType: !2, align: 4096, flags: DIFlagPublic)
!6 = !DIDerivedType(tag: DW_TAG_member, name: "m7", scope: !4, baseType: !2, offset: 2240)
!7 = !DIDerivedType(tag: DW_TAG_member, name: "m8", scope: !4, baseType: !2, size: 10)
!8 = !{!5, !6, !7}
!9 = !DITemplateTypeParameter(name: "foo\22bar", type: !2)
!10 = !{!9}
!11 = !DISubroutineType(flags: DIFlagIntroducedVirtual | DIFlagEnumClass | DIFlagProtected, cc: DW_CC_program, types: !12)
!12 = !{null, !3, !4}
!13 = !DIModule(scope: !1, name: "x", configMacros: "x", isDecl: false)
!14 = distinct !DISubprogram(name: "fn", scope: !0, file: !0, line: 3, type: !11, scopeLine: 1, spFlags: DISPFlagDefinition | DISPFlagOptimized, unit: !1, retainedNodes: !17)
!15 = !DILocalVariable(scope: !14, file: !0, line: 231, type: !2, flags: DIFlagAllCallsDescribed | DIFlagRValueReference)
!16 = !DILabel(scope: !14, name: "r", file: !0, line: 26)
!17 = !{!15, !16}
!18 = !DILocation(line: 1, column: 3, scope: !14)
!19 = !DILocation(line: 138, column: 17, scope: !14)
!20 = !DILocation(line: 7, column: 1, scope: !14)
!21 = !DILocation(line: 4, column: 53, scope: !14, isImplicitCode: true)
!22 = !DILocation(line: 0, column: 22, scope: !14)
!23 = !DILocation(line: 46, column: 12, scope: !14)
!24 = distinct !DISubprogram(name: "fn", scope: !0, file: !0, line: 29, type: !11, scopeLine: 1, spFlags: DISPFlagDefinition, unit: !1, linkageName: "_Z2fnv", retainedNodes: !26)
!25 = !DILocalVariable(name: "foo\22bar", scope: !24, type: !4, flags: DIFlagProtected)
!26 = !{!25}
!27 = !DILocation(line: 59, column: 6, scope: !24)
!28 = distinct !DISubprogram(name: "fn", scope: !0, file: !0, line: 26, type: !11, scopeLine: 1, spFlags: DISPFlagDefinition, unit: !1, retainedNodes: !31)
!29 = distinct !DILexicalBlock(scope: !28, file: !0, line: 2)
!30 = !DILabel(scope: !28, name: "main.c", file: !0, line: 1)
!31 = !{!30}
!32 = !DILocation(line: 6, column: 0, scope: !29)
!33 = !DILocation(line: 134, column: 35, scope: !29)
!34 = !DILocation(line: 2, column: 26, scope: !29, isImplicitCode: true)
!35 = !DILocation(line: 42, column: 19, scope: !29)
!36 = !DILocation(line: 130, column: 57, scope: !29, isImplicitCode: true)
!37 = !DILocation(line: 23, column: 31, scope: !29)
!38 = distinct !DIGlobalVariable(name: "r", file: !0, type: !2, isLocal: true, align: 3364)
!39 = !DIGlobalVariableExpression(var: !38, expr: !DIExpression(DW_OP_plus_uconst, 7))
!40 = !{!39}
!41 = !{!2}
!42 = !DIImportedEntity(tag: DW_TAG_imported_declaration, name: "int", scope: !1, line: 747)
!43 = !{!42}
!44 = !DIMacro(type: DW_MACINFO_define, line: 0, name: "x")
!45 = !DIMacroFile(line: 3, file: !0, nodes: !46)
!46 = !{!44}
!47 = !{!45}
!48 = !DIObjCProperty(file: !0, line: 1, getter: "T<int>", attributes: 1096)
!49 = !DICommonBlock(scope: !14, name: "x", line: 2848)
!50 = !DITemplateValueParameter(name: "foo\22bar", defaulted: true, value: i32 9)
!51 = !{i32 2, !"Debug Info Version", i32 3}
!52 = !{!48, !49, !50}
uselistorder i32* @ulo4, { 1, 0 }
