target datalayout = "\65-m:\65-p27\30:32:32-p271:32:32-p272:64:64-i64:64-f8\30:128-n8:16:32:64-S128"
target triple = "x86_64-pc-windows-msvc"
%struct.S1 = type opaque
%"cl\61ss\2EC 2" = type opaque
%struct.S0 = type <{ i1*, x86_mmx, <{ i1*, %struct.S1*, <{ i32, i1, i17, i2 }> }> }>
$cd1 = comdat any
$cd2 = comdat nodeduplicate
@g5 = extern_weak addrspace(1) global i16
@0 = external dllimport local_unnamed_addr global i8* (fp128, i1, double) addrspace(1)*
@fnaddr6 = internal global i64 ptrtoint (i1 ()* no_cfi @f3 to i64), !dbg !24
@fnaddr7 = internal global i1 ()* no_cfi @f3
declare arm_aapcs_vfpcc i1 @f3() local_unnamed_addr argmemonly section ".t\65xt.hot"
define weak_odr noundef i1 @"odd n\61me 4"(i8* %p1) local_unnamed_addr addrspace(1) !dbg !16 {
0:
  indirectbr i8 addrspace(1)* blockaddress(@"odd n\61me 4", %bb1001), [label %bb1001], !bar.baz !1, !dbg !DILocation(line: 8, column: 2, scope: !16)
bb1001:
  %1 = phi i8* [ %p1, %0 ], !foo !0, !dbg !20
  %2 = phi i8* [ %p1, %0 ]
  %3 = fsub fp128 zeroinitializer, 0xL00000000000000003FFF000000000000, !dbg !21
  %v1002 = select i1 true, i8* bitcast (i1 ()* dso_local_equivalent @f3 to i8*), i8* %1
  %v1003 = va_arg i8* %1, i32
  %4 = load i8, i8* %1, !dbg !22
  call void @llvm.dbg.value(metadata i8 %4, metadata !17, metadata !DIExpression(DW_OP_deref)), !dbg !DILocation(line: 100, column: 3, scope: !16)
  %v1004 = udiv i8 %4, %4, !dbg !DILocation(line: 149, column: 38, scope: !16)
  ret i1 true
}
declare void @llvm.dbg.value(metadata, metadata, metadata)
!llvm.dbg.cu = !{!4}
!llvm.module.flags = !{!26}
!0 = !{i32 -2147483648, !"\00\FF", !"neType(types: !15)
h\65llo"}
!1 = !{}
!2 = !{}
!3 = !DIFile(filename: "x", directory: "/tmp/a\20b", source: "main.c")
!4 = distinct !DICompileUnit(language: DW_LANG_Rust, file: !3, producer: "v\65rif\201.\30", flags: "-O2\20-g", emissionKind: NoDebug, globals: !25, nameTableKind: Default)
!5 = !DIBasicType(tag: DW_TAG_unspecified_type, name: "/tmp/a\20b", size: 8, align: 697, encoding: DW_ATE_float, flags: DIFlagPublic)
!6 = !DIBasicType(tag: DW_TAG_unspecified_type, align: 1, flags: DIFlagArtificial | DIFlagBitField | DIFlagObjectPointer)
!7 = !DIDerivedType(tag: DW_TAG_typedef, scope: !4, baseType: !6)
!8 = !DIDerivedType(tag: DW_TAG_typedef, name: "\C3\A9", baseType: !7, align: 1, flags: DIFlagPrototyped | DIFlagStaticMember)
!9 = !DIDerivedType(tag: DW_TAG_volatile_type, name: "int", scope: !4, baseType: !5, size: 391, offset: 1591, flags: DIFlagBitField)
!10 = !DICompositeType(tag: DW_TAG_class_type, name: "/tmp/a\20b", scope: !3, baseType: !9, size: 30, offset: 240, flags: DIFlagEnumClass | DIFlagFwdDecl | DIFlagProtected, elements: !13, identifier: "foo\22bar")
!11 = !DIDerivedType(tag: DW_TAG_member, name: "m12", scope: !10, line: 10, baseType: !9, size: 18, offset: 1)
!12 = !DIDerivedType(tag: DW_TAG_member, name: "m13", scope: !10, baseType: !5, size: 683, flags: DIFlagPrivate | DIFlagObjectPointer)
!13 = !{!11, !12}
!14 = !DISubroutineType(types: !15)
!15 = !{}
!16 = distinct !DISubprogram(name: "fn", scope: !3, file: !3, line: 31, type: !14, scopeLine: 1, spFlags: DISPFlagDefinition, unit: !4, retainedNodes: !19)
!17 = !DILocalVariable(scope: !16, file: !3, line: 0, flags: DIFlagRValueReference | DIFlagFwdDecl)
!18 = !DILabel(scope: !16, name: "x", file: !3, line: 994)
!19 = !{!17, !18}
!20 = !DILocation(line: 0, column: 0, scope: !16)
!21 = !DILocation(line: 0, column: 7, scope: !16)
!22 = !DILocation(line: 40, column: 70, scope: !16)
!23 = distinct !DIGlobalVariable(name: "main.c", linkageName: "main.c", file: !3, type: !5, isDefinition: true)
!24 = !DIGlobalVariableExpression(var: !23, expr: !DIExpression(DW_OP_constu, 42, DW_OP_stack_value))
!25 = !{!24}
!26 = !{i32 2, !"D\65bug\20Info\20V\65rsion", i32 3}
