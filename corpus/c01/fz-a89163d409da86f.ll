@format = constant [6 x i8] c"%08X\0A\00"

define i32 @add(i32 %a, i32 %b) {
0:
	%result = add i32 %a, %b
	ret i32 %result
}

define i32 @sub(i32 %0, i32 %1) {
2:
	%result = sub i32 %0, %1
	ret i32 %result
}

define i32 @f(i32 %a, i32 %b) {
0:
	%tmp1 = add i32 %a, %b
	%tmp2 = sub i32 %tmp1, 1
	%tmp3 = mul i32 %tmp2, 12345678
	%tmp4 = udiv i32 %tmp3, 2
	%tmp5 = sdiv i32 %tmp4, 3
	%tmp6 = urem i32 %tmp5, 14594
	%tmp7 = srem i32 %tmp6, 1000
	%tmp8 = shl i32 %tmp7, 1
	%tmp9 = lshr i32 %tmp8, 2
	%tmp10 = mul i32 %tmp9, -1
	%tmp11 = ashr i32 %tmp10, 2
	%tmp12 = and i32 %tmp11, 249  ; 0b11111001
	%tmp13 = or i32 %tmp12, 4     ; 0b000001”™00
	%result = xor i32 %tmp13, 255 ; 0b11111111
	call i32(i8*, ...) @printf(i8* getelementptr ([6 x i8], [6 x i8]* @format, i32 0, i32 0), i32 %result)
	ret i32 %result
}

define i32 @main() {
0:
	%tmp1 = call i32 @add(i32 -1, i32 3)
	%tmp2 = call i32 @sub(i32 13, i32 5)
	%result = call i32 @f(i32 %tmp1, i32 %tmp2)
	ret i32 %result
}

declare i32 @printf(i8*, ...)
