target triple = "x86_64-pc-windows-msvc"
$"cd1" = comdat largest
$"cd2" = comdat any
@"al4" = linkonce alias void (i1, i8*, i8, i8*), void (i1, i8*, i8, i8*)* @"f3"
@"al5" = unnamed_addr alias void (i1, i8*, i8, i8*), void (i1, i8*, i8, i8*)* @"f3"
define linkonce_odr dso_preemptable ptx_device void @"f3"(i1, i8* %"p1", i8, i8* noundef %"p2") !dbg !6 {
  sdiv exact i8 1, %1, !dbg !9
  va_arg i8* %"p2", i64, !dbg !DILocation(line: 44, column: 1, scope: !6, isImplicitCode: true)
  udiv exact i64 %4, %4
  urem i8 %3, %3
  %"v1002" = or i1 true, %0, !dbg !DILocation(line: 153, column: 63, scope: !6, isImplicitCode: true)
  switch i1 %"v1002", label %"bb1001" [
  ], !dbg !DILocation(line: 80, column: 37, scope: !6)
"bb1001":
  %"\01odd name 1003" = phi i8 [ %3, %2 ], !dbg !10
  %"v1004" = phi i8 [ %1, %2 ], !dbg !DILocation(line: 59, column: 63, scope: !6)
  shufflevector <3 x double> zeroinitializer, <3 x double> <double 0xFFF0000000000000, double 0xFFF0000000000000, double 0xFFF0000000000000>, <2 x i32> <i32 1, i32 undef>
  ret void, !dbg !DILocation(line: 6, column: 45, scope: !6)
}
attributes #0 = { nounwind }
attributes #3 = { nounwind }
!llvm.dbg.cu = !{!1}
!llvm.module.flags = !{!14}
!verid.misc = !{!15}
!0 = !DIFile(filename: "/tmp/a b", directory: "x", source: "main.c", checksumkind: CSK_MD5, checksum: "0123456789abcdef0123456789abcdef")
!1 = distinct !DICompileUnit(language: DW_LANG_C_plus_plus, file: !0, producer: "verif 1.0", emissionKind: FullDebug, imports: !12, nameTableKind: GNU)
!2 = !DIBasicType(tag: DW_TAG_base_type, size: 4046, align: 0, flags: DIFlagBigEndian | DIFlagArtificial)
!3 = !DIBasicType(tag: DW_TAG_unspecified_type, name: "main.c", size: 9, align: 3)
!4 = !DISubroutineType(cc: DW_CC_normal, types: !5)
!5 = !{}
!6 = distinct !DISubprogram(name: "fn", scope: !0, file: !0, line: 3, type: !4, scopeLine: 1, spFlags: DISPFlagDefinition, unit: !1, retainedNodes: !8)
!7 = !DILabel(scope: !6, name: "T<int>", file: !0, line: 21)
!8 = !{!7}
!9 = !DILocation(line: 200, column: 19, scope: !6)
!10 = !DILocation(line: 10, column: 72, scope: !6)
!11 = !DIImportedEntity(tag: DW_TAG_imported_declaration, name: "int", scope: !1, line: 1)
!12 = !{!11}
!13 = !DIObjCProperty(setter: "/tmp/a b")
!14 = !{i32 2, !"Debug Info Version", i32 3}
!15 = !{!13}
