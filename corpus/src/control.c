typedef int (*fn)(int);
int apply(fn f, int x) { return f(x) + 1; }
_Thread_local int tl;
static __thread int tl2 __attribute__((tls_model("initial-exec")));
int sw(int x) { switch (x) { case 1: return 10; case 2: return 20; case 7: return tl; case 100 ... 110: return tl2; default: return -1; } }
int cgoto(int i) { static void *tbl[] = { &&a, &&b, &&c }; goto *tbl[i % 3]; a: return 1; b: return 2; c: return 3; }
int loops(int n) { int s = 0; for (int i = 0; i < n; i++) { if (i % 3 == 0) continue; if (i > 100) break; s += i; } do { s--; } while (s > 1000); return s; }
int tern(int a, int b) { return a > b ? a : b; }
_Noreturn void die(void);
int chk(int x) { if (x < 0) die(); return x; }
int vla(int n) { int a[n]; for (int i = 0; i < n; i++) a[i] = i; return a[n / 2]; }
int rec(int n) { return n < 2 ? n : rec(n - 1) + rec(n - 2); }
