__attribute__((target_clones("avx2", "sse4.2", "default"))) int cloned(int x) { return x * 3; }
int use(int x) { return cloned(x); }
__attribute__((cpu_specific(ivybridge))) int disp(int x) { return x + 1; }
__attribute__((cpu_specific(generic))) int disp(int x) { return x; }
__attribute__((cpu_dispatch(ivybridge, generic))) int disp(int x);
int use2(int x) { return disp(x); }
__attribute__((target("default"))) int mv(void) { return 0; }
__attribute__((target("sse4.2"))) int mv(void) { return 1; }
__attribute__((target("arch=haswell"))) int mv(void) { return 2; }
int use3(void) { return mv(); }
