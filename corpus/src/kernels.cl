typedef float float4 __attribute__((ext_vector_type(4)));
typedef int int2 __attribute__((ext_vector_type(2)));
__constant float coeff[4] = { 1.0f, 0.5f, 0.25f, 0.125f };
struct S { int a; __global float *p; };
__kernel void saxpy(__global const float *x, __global float *y, float a, int n) {
  int i = get_global_id(0);
  if (i < n) y[i] = a * x[i] + y[i] * coeff[i & 3];
}
__kernel __attribute__((reqd_work_group_size(8, 8, 1))) void tile(__global float4 *out, __local float4 *tmp, __constant int2 *idx) {
  int l = get_local_id(0);
  tmp[l] = out[idx[l].x] * (float4)(1.0f, 2.0f, 3.0f, 4.0f);
  barrier(1);
  out[idx[l].y] = tmp[(l + 1) & 63].wzyx;
}
int priv(__private int *p, struct S s) { __private int loc[4] = { 1, 2, 3, 4 }; return loc[*p & 3] + s.a; }
__kernel void generic_as(__global int *g, __local int *l) { __generic int *p = (get_global_id(0) & 1) ? (__generic int *)g : (__generic int *)l; *p = 7; }
size_t get_global_id(uint); size_t get_local_id(uint); void barrier(int);
