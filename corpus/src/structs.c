struct P { int x; double y; char name[8]; struct P *next; };
union U { int i; float f; unsigned char b[4]; };
struct __attribute__((packed)) Pk { char c; int i; short s; };
struct Bits { unsigned a : 3; int b : 5; unsigned long long c : 40; };
static int counter;
int sum(struct P *p) { int s = 0; while (p) { s += p->x; p = p->next; } return s + counter; }
double avg(const double *v, int n) { double t = 0; for (int i = 0; i < n; i++) t += v[i]; return n ? t / n : 0.0; }
float pun(union U u) { u.i ^= 0x80000000u; return u.f + u.b[1]; }
int pk(struct Pk *p) { return p->c + p->i + p->s; }
unsigned bits(struct Bits b) { b.a++; b.b -= 2; b.c <<= 3; return b.a + b.b + (unsigned)b.c; }
struct P make(int x) { struct P p = { x, 1.5, "abc", 0 }; return p; }
struct Big { long a[16]; };
struct Big copy(struct Big *b) { struct Big r = *b; r.a[3] = 7; return r; }
const char *names[] = { "zero", "one", "two\n\ttab", "quote\"q", "\x01\xff" };
int table[4][3] = { {1,2,3}, {4,5,6} };
struct P gp = { 42, -0.0, "glob", &gp };
