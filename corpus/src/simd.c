#include <immintrin.h>
__m256 fma8(__m256 a, __m256 b, __m256 c) { return _mm256_fmadd_ps(a, b, c); }
__m128i sh(__m128i a) { return _mm_shuffle_epi32(_mm_add_epi16(a, a), 0x1b); }
__m256d perm(__m256d a) { return _mm256_permute4x64_pd(a, 0x4e); }
int msk(__m128 a, __m128 b) { return _mm_movemask_ps(_mm_cmplt_ps(a, b)); }
__m512 wide(__m512 a, __mmask16 k) { return _mm512_maskz_mov_ps(k, a); }
unsigned long long crc(unsigned long long c, unsigned long long v) { return _mm_crc32_u64(c, v); }
void nt(float *p, __m128 v) { _mm_stream_ps(p, v); _mm_sfence(); }
