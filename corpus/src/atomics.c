#include <stdarg.h>
_Atomic int ai; _Atomic long al; _Atomic(void *) ap; int pi;
int at(int v) { ai += v; al--; return __atomic_load_n(&pi, __ATOMIC_ACQUIRE) + __atomic_fetch_add(&pi, 2, __ATOMIC_RELAXED) + ai; }
int cas(int *p, int e, int d) { return __atomic_compare_exchange_n(p, &e, d, 1, __ATOMIC_SEQ_CST, __ATOMIC_ACQUIRE) + __atomic_compare_exchange_n(p, &e, d, 0, __ATOMIC_ACQ_REL, __ATOMIC_RELAXED); }
void fences(void) { __atomic_thread_fence(__ATOMIC_SEQ_CST); __atomic_signal_fence(__ATOMIC_RELEASE); }
long rmw(long *p) { return __atomic_fetch_and(p, 7, __ATOMIC_RELEASE) + __atomic_fetch_or(p, 8, __ATOMIC_ACQ_REL) + __atomic_fetch_xor(p, 9, __ATOMIC_SEQ_CST) + __atomic_exchange_n(p, 1, __ATOMIC_ACQUIRE) + __atomic_fetch_nand(p, 3, __ATOMIC_RELAXED) + __atomic_fetch_max(p, 5, __ATOMIC_RELAXED) + __atomic_fetch_min(p, 5, __ATOMIC_RELAXED); }
volatile int vol; int rv(void) { vol = vol + 1; return vol; }
int va(int n, ...) { va_list ap, cp; va_start(ap, n); va_copy(cp, ap); int s = 0; for (int i = 0; i < n; i++) s += va_arg(ap, int); double d = va_arg(cp, double); va_end(cp); va_end(ap); return s + (int)d; }
int usev(void) { return va(3, 1, 2, 3) + va(1, 2.5); }
