int weakv __attribute__((weak)) = 3;
extern int ext_weak __attribute__((weak));
int hid __attribute__((visibility("hidden"))) = 1;
int prot __attribute__((visibility("protected"))) = 2;
int sec __attribute__((section(".mysec"), aligned(64), used)) = 5;
static int unusedkept __attribute__((used)) = 9;
const int ro = 7; static const char msg[] = "hello \"world\"\\\n";
int common_sym;
void target(void) {}
void ali(void) __attribute__((alias("target")));
void walias(void) __attribute__((weak, alias("target")));
static void *resolve(void) { return (void *)target; }
void ifn(void) __attribute__((ifunc("resolve")));
__attribute__((constructor(101))) static void ctor(void) { common_sym++; }
__attribute__((destructor)) static void dtor(void) { common_sym--; }
__attribute__((noinline, cold)) int coldf(int x) { return x * 3; }
__attribute__((always_inline, hot)) inline int hotf(int x) { return x + ext_weak; }
#if defined(__x86_64__) || defined(__i386__)
__attribute__((naked)) void nak(void) { __asm__("ret"); }
#endif
__attribute__((noreturn)) void nr(void) { for (;;) ; }
__attribute__((pure)) int pr(const int *p) { return *p; }
__attribute__((const)) int cn(int x) { return x * x; }
__attribute__((malloc, alloc_size(1), returns_nonnull)) void *my_alloc(unsigned long n);
__attribute__((nonnull(1))) int nn(int *p, int *q) { return *p + (q ? *q : 0); }
__attribute__((optnone, noinline)) int on(int x) { return x + 1; }
__attribute__((minsize)) int ms(int x) { return x / 3; }
#if defined(__i386__)
__attribute__((regparm(2))) int rp(int a, int b) { return a - b; }
__attribute__((stdcall)) int sc(int a) { return a; }
__attribute__((fastcall)) int fc(int a) { return a; }
#endif
#if defined(__x86_64__) || defined(__i386__)
__attribute__((ms_abi)) int msabi(int a, double b) { return a + (int)b; }
__attribute__((vectorcall)) float vc(float a) { return a; }
#else
int msabi(int a, double b) { return a + (int)b; }
float vc(float a) { return a; }
#endif
__attribute__((preserve_most)) void pm(void) { }
__attribute__((no_sanitize("address"))) int ns(int *p) { return p[1]; }
int use(void) { int *p = my_alloc(16); return hotf(1) + coldf(2) + pr(&ro) + cn(3) + nn(p, 0) + msabi(1, 2.0) + msg[1] + (int)vc(1.0f); }
