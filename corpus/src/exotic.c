typedef _ExtInt(37) i37; typedef unsigned _ExtInt(127) u129;
i37 ext(i37 a, i37 b) { return a * b + (i37)12345678901; }
u129 wide(u129 a) { return (a << 100) | 0x123456789ABCDEF0ULL; }
typedef float m4x4 __attribute__((matrix_type(4, 4)));
#if __has_extension(matrix_types)
m4x4 mm(m4x4 a, m4x4 b) { return a * b + __builtin_matrix_transpose(a); }
#endif
int __attribute__((address_space(3))) lds[16];
int as3(int __attribute__((address_space(3))) *p, int __attribute__((address_space(5))) *q) { return *p + *q + lds[2]; }
int annotated __attribute__((annotate("my \"annotation\"")));
void cl(int *p) { *p = 0; }
int cleanup(void) { int v __attribute__((cleanup(cl))) = 3; return v; }
void *al(void *p) { return __builtin_assume_aligned(p, 64); }
void assume(int x) { __builtin_assume(x > 3); }
int loopy(int *a, int n) { int s = 0;
#pragma clang loop unroll_count(4) vectorize_width(8) interleave(enable)
  for (int i = 0; i < n; i++) s += a[i];
#pragma clang loop distribute(enable)
  for (int i = 0; i < n; i++) a[i] = s;
  return s; }
__attribute__((target("avx2"))) int tavx(int x) { return x + 1; }
__attribute__((flatten)) int fl(int x) { return tavx(x); }
__attribute__((no_stack_protector)) int nsp(char *p) { char buf[64]; __builtin_memcpy(buf, p, 64); return buf[3]; }
__attribute__((nodebug)) int nd(int x) { return x; }
void nts(int *p, int v) { __builtin_nontemporal_store(v, p); }
_Bool generic(double x) { return _Generic(x, double: 1, default: 0); }
typedef int v8i __attribute__((vector_size(32))); typedef float v8f __attribute__((vector_size(32)));
v8f conv(v8i v) { return __builtin_convertvector(v, v8f); }
struct Flex { int n; char data[]; }; int flex(struct Flex *f) { return f->data[f->n - 1]; }
static inline __attribute__((always_inline)) int dbl(int x) { return 2 * x; } int useinl(int x) { return dbl(x) + dbl(3); }
