struct Base { virtual ~Base() {} virtual int f() const { return 1; } int b = 3; };
struct Derived : Base { int f() const override { return 2 + b; } };
struct VB : virtual Base { int m; }; int usevb() { VB v; return v.f() + v.m; }
int call(const Base &b) { return b.f(); }
int mk() { Derived d; return call(d); }
template <class T> T tmax(T a, T b) { return a < b ? b : a; }
template <class T> struct Box { T v; static int count; T get() const { return v; } };
template <class T> int Box<T>::count = 0;
int useT() { Box<double> b{1.5}; Box<int>::count++; return tmax(1, 2) + (int)tmax(1.5, 2.5) + (int)b.get(); }
void thrower(int x) { if (x) throw x; }
int catcher(int x) { try { thrower(x); } catch (int e) { return e; } catch (...) { return -1; } return 0; }
struct Guard { int *p; ~Guard() { ++*p; } };
int cleanup(int x) { int n = 0; { Guard g{&n}; thrower(x); } return n; }
int lam(int k) { auto f = [k](int x) { return x * k; }; auto g = [&](int y) { return f(y) + k; }; return g(3); }
namespace ns { inline int inl_var = 5; static int stat() { static int once = lam(2); return once; } int pub() { return stat() + inl_var; } }
int (Base::*pmf)() const = &Base::f; int Base::*pmd = &Base::b;
int usepm(Base &b) { return (b.*pmf)() + b.*pmd; }
thread_local Guard tlg{nullptr};
enum class Color : unsigned char { R, G, B }; int en(Color c) { return static_cast<int>(c); }
int nothrow(int x) noexcept { return x; }
void *operator new(decltype(sizeof 0), void *p) noexcept; int pl(void *buf) { return (new (buf) Derived)->f(); }
