__attribute__((objc_root_class)) @interface Root { int ivar; } + (id)alloc; - (id)init; @property int value; @end
@protocol P - (int)compute:(int)x; @end
@interface Obj : Root <P> { double d; } - (int)compute:(int)x; + (int)classMethod; @end
@implementation Root + (id)alloc { return 0; } - (id)init { ivar = 1; return self; } @synthesize value; @end
@implementation Obj - (int)compute:(int)x { return x * 2 + self.value; } + (int)classMethod { return 7; } @end
int use(void) { Obj *o = [[Obj alloc] init]; o.value = 3; return [o compute:4] + [Obj classMethod]; }
int blk(int k) { int (^b)(int) = ^(int x) { return x + k; }; return b(2); }
id lit(void) { return @"constant string"; }
void k2(void);
int tc(id o) { @try { [o compute:1]; } @catch (id e) { return 1; } @finally { k2(); } return 0; }
