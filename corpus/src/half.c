_Float16 h16(_Float16 a, _Float16 b) { return a * b + (_Float16)0.5; }
__fp16 hs[4] = { 1.0, -0.0, 65504.0, 5.96e-8 };
_Float16 hsum(void) { _Float16 s = 0; for (int i = 0; i < 4; i++) s += hs[i]; return s; }
typedef _Float16 h8 __attribute__((vector_size(16)));
h8 hv(h8 a, h8 b) { return a * b - a; }
long double q(long double x) { return x * 3.0L + 1e-4000L; }
