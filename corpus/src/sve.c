#include <arm_sve.h>
svfloat32_t axpy(svbool_t pg, svfloat32_t x, svfloat32_t y, float a) { return svmla_n_f32_x(pg, y, x, a); }
void loop(float *restrict d, const float *restrict s, int n) { for (int i = 0; i < n; i += svcntw()) { svbool_t pg = svwhilelt_b32(i, n); svst1(pg, d + i, svadd_x(pg, svld1(pg, s + i), svld1(pg, d + i))); } }
svint64_t idx(svint64_t a) { return svindex_s64(0, 2); }
uint64_t cnt(svbool_t p) { return svcntp_b8(p, p); }
