int filt(unsigned code);
void may(void);
int seh1(void) { int r = 0; __try { may(); r = 1; } __except (filt(_exception_code())) { r = 2; } return r; }
int seh2(void) { int r = 0; __try { may(); } __finally { r = _abnormal_termination() ? 5 : 6; } return r; }
int seh3(void) { __try { __try { may(); } __finally { may(); } } __except (1) { return 1; } return 0; }
__declspec(dllexport) int exported(int x) { return x; }
__declspec(dllimport) int imported(int x);
__declspec(dllimport) extern int impvar;
int useimp(void) { return imported(impvar); }
__declspec(selectany) int sany = 3;
__declspec(noinline) __declspec(nothrow) int ni(int x) { return x + 1; }
int __stdcall sc(int a, int b) { return a + b; }
int __fastcall fc(int a, int b) { return a - b; }
int __vectorcall vcc(double a) { return (int)a; }
#pragma section(".mysec", read, write)
__declspec(allocate(".mysec")) int insec = 4;
__declspec(thread) int tls1;
