double red(const double *v, int n) { double s = 0; _Pragma("omp parallel for reduction(+:s) schedule(static, 4)") for (int i = 0; i < n; i++) s += v[i]; return s; }
void crit(int *p) { _Pragma("omp parallel") { _Pragma("omp critical") (*p)++; _Pragma("omp barrier") _Pragma("omp single") (*p) *= 2; } }
void simd(float *a, const float *b, int n) { _Pragma("omp simd aligned(a, b : 32)") for (int i = 0; i < n; i++) a[i] += b[i]; }
void tasks(int *x) { _Pragma("omp task shared(x)") x[0] = 1; _Pragma("omp taskwait") }
