void *alloc(unsigned long); void dealloc(void *); void work(int);
void *coro(int n) {
  auto id = __builtin_coro_id(0, nullptr, nullptr, nullptr);
  void *mem = __builtin_coro_alloc() ? alloc(__builtin_coro_size()) : nullptr;
  void *hdl = __builtin_coro_begin(mem);
  for (int i = 0; i < n; i++) { work(i); if (__builtin_coro_suspend(false)) goto done; }
done:
  dealloc(__builtin_coro_free(hdl));
  __builtin_coro_end(hdl, false);
  return hdl;
}
void drive(void *h) { while (!__builtin_coro_done(h)) __builtin_coro_resume(h); __builtin_coro_destroy(h); }
