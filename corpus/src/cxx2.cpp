typedef float v4f __attribute__((ext_vector_type(4)));
v4f swz(v4f a) { return a.wzyx * a.xxxx; }
struct NonTriv { NonTriv(); NonTriv(const NonTriv &); ~NonTriv(); int v; };
NonTriv byval(NonTriv a) { return a; }
int rethrow() { try { throw 1.5; } catch (double) { throw; } }
struct E1 {}; struct E2 : E1 {};
int spec(int x) { try { if (x) throw E2(); } catch (const E1 &) { return 1; } return 0; }
static NonTriv globalobj;
int statics() { static NonTriv s; return s.v + globalobj.v; }
constexpr int fib(int n) { return n < 2 ? n : fib(n - 1) + fib(n - 2); } int cf = fib(10);
struct Agg { int a; float b; char c[3]; }; Agg retagg() { return {1, 2.0f, {'x', 'y', 0}}; }
long long wide(long long a, unsigned char b, short c, bool d) { return a + b + c + d; }
extern "C" int cfun(int); extern "C" { int cvar = 3; }
int dyn(struct Base2 *); struct Base2 { virtual void v(); }; struct D2 : Base2 { void v() override; }; D2 *cast(Base2 *b) { return dynamic_cast<D2 *>(b); }
const char *str8 = u8"héllo"; const char16_t *s16 = u"ab"; const wchar_t *sw = L"wide\x1234";
int arr2(int (&a)[4]) { int s = 0; for (int x : a) s += x; return s; }
