#define V(T,N) T __attribute__((vector_size(N)))
typedef V(int,16) v4i; typedef V(float,16) v4f; typedef V(double,32) v4d; typedef V(char,8) v8c;
v4i vadd(v4i a, v4i b) { return a + b * (v4i){1,2,3,4}; }
v4f vmix(v4f a, v4f b) { return __builtin_shufflevector(a, b, 0, 5, 2, 7) / b; }
typedef V(long long,32) v4l; v4l vcmp(v4d a, v4d b) { return a > b; }
int vext(v8c v, int i) { return v[i] + v[3]; }
#ifdef __SIZEOF_INT128__
__int128 mul128(long a, long b) { return (__int128)a * b; }
unsigned __int128 big = ((unsigned __int128)0xDEADBEEFCAFEBABEULL << 64) | 0x0123456789ABCDEFULL;
#endif
long double ld(long double x) { return x * 1.0000000000000000001L + 3.0L; }
__fp16 hstore; float hconv(void) { return hstore; }
float fm(float a, float b, float c) { return a * b + c - a / b; }
double consts(void) { return 1e300 * 1e-300 + 0x1.8p1 + 2.2250738585072014e-308 + 4.9e-324 + __builtin_inf() + __builtin_nan(""); }
float fconsts(void) { return 3.4028235e38f + 1.17549435e-38f + 1e-45f + 0.1f + 16777217.0f; }
int ovf(int a, int b, int *r) { return __builtin_sadd_overflow(a, b, r) | __builtin_umul_overflow((unsigned)a, (unsigned)b, (unsigned *)r); }
unsigned rot(unsigned x, int n) { return (x << n) | (x >> (32 - n)); }
int clz(unsigned x) { return __builtin_clz(x) + __builtin_popcount(x) + __builtin_ctzll(x) + __builtin_bswap32(x); }
long sdiv(long a, long b) { return a / b + a % b + (a >> 3) + (long)((unsigned long)a >> 5) + (a / 8); }
_Bool bl(int x) { return x && !(x & 1); }
_Complex double cmul(_Complex double a, _Complex double b) { return a * b; }
