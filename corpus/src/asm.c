int inl(int x) { int r; __asm__ volatile("addl %1, %0" : "=r"(r) : "r"(x), "0"(x) : "cc", "memory"); return r; }
unsigned long rd(void) { unsigned lo, hi; __asm__("rdtsc" : "=a"(lo), "=d"(hi)); return ((unsigned long)hi << 32) | lo; }
int ag(int x) { __asm__ goto("testl %0, %0; jnz %l1" : : "r"(x) : "cc" : yes); return 0; yes: return 1; }
void bar(void) { __asm__ __volatile__("" ::: "memory"); }
__asm__(".globl modasm\nmodasm:\n\tret");
void *ra(void) { return __builtin_return_address(0); }
void *fa(void) { return __builtin_frame_address(0); }
void pf(const char *p) { __builtin_prefetch(p, 0, 3); }
void tr(int x) { if (x) __builtin_trap(); else __builtin_unreachable(); }
int ex(int x) { return __builtin_expect(x, 0) ? 1 : 2; }
void mc(char *d, const char *s, unsigned long n) { __builtin_memcpy(d, s, n); __builtin_memset(d, 0, 8); __builtin_memmove(d + 1, d, 4); }
long osz(char *p) { return __builtin_object_size(p, 0); }
int setj(void **buf) { return __builtin_setjmp(buf); }
