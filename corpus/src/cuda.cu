__attribute__((global)) void kern(float *out, const float *in, int n) { int i = __nvvm_read_ptx_sreg_ctaid_x() * __nvvm_read_ptx_sreg_ntid_x() + __nvvm_read_ptx_sreg_tid_x(); if (i < n) out[i] = in[i] * 2.0f; }
__attribute__((device)) int devfn(int x) { return x + 1; }
__attribute__((shared)) int sh[32];
__attribute__((constant)) float cst[4];
__attribute__((global)) void k2(int *o) { sh[__nvvm_read_ptx_sreg_tid_x()] = devfn(o[0]); __nvvm_bar_sync(0); o[1] = sh[0] + (int)cst[1]; }
