%i = type i32
%j = type %i
%k = type %j
%v = type <4 x %j>
@h = global %j 7
@w = global %v zeroinitializer
define %k @f(%j %y) {
  %r = add %i %y, 1
  ret %k %r
}
