declare align 4 i8* @f()
