define <2 x i32*> @f([4 x i32]* %p) {
  %q = getelementptr [4 x i32], [4 x i32]* %p, <2 x i64> zeroinitializer, i64 1
  ret <2 x i32*> %q
}
define <vscale x 2 x i32*> @g(<vscale x 2 x i32*> %p) {
  %q = getelementptr i32, <vscale x 2 x i32*> %p, i64 1
  ret <vscale x 2 x i32*> %q
}
