!llvm.dbg.cu = !{!0}
!llvm.module.flags = !{!3}
!0 = distinct !DICompileUnit(language: DW_LANG_C99, file: !1, emissionKind: FullDebug, retainedTypes: !2)
!1 = !DIFile(filename: "a.c", directory: "/")
!2 = !{!4}
!3 = !{i32 2, !"Debug Info Version", i32 3}
!4 = !DICompositeType(tag: DW_TAG_structure_type, name: "t", file: !1, size: 32, runtimeLang: 40)
