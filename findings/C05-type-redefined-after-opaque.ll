%T = type opaque
%T = type { i32 }
@g = global %T zeroinitializer
