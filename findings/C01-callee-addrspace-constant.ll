declare void @f() addrspace(1)
declare i32 @p(...)
define void @g() addrspace(1) personality i32 (...)* @p {
  call addrspace(1) void dso_local_equivalent @f()
  call addrspace(1) void no_cfi @f()
  call addrspace(1) void bitcast (void () addrspace(1)* @f to void () addrspace(1)*)()
  invoke addrspace(1) void dso_local_equivalent @g() to label %a unwind label %b
a:
  ret void
b:
  %l = landingpad i32 cleanup
  ret void
}
