define void @f() addrspace(1) {
  br label %b
b:
  indirectbr i8 addrspace(1)* blockaddress(@f, %b), [label %b]
}
