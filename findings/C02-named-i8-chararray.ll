; a character array constant whose type is spelled through a named i8 (or a named array type) got a fresh
; `[N x i8]` as its type: the printer wrote `[2 x i8] c"cd"` where the input said `[2 x %c]`, and the two
; parsed modules differ structurally
%c = type i8
%arr = type [2 x i8]
@s = global [2 x %c] c"ab"
@t = global %arr c"xy"
define void @f([2 x %c] %p) {
  %x = select i1 true, [2 x %c] c"cd", [2 x %c] %p
  %y = select i1 true, %arr c"ef", %arr c"gh"
  ret void
}
