define <vscale x 4 x i1> @f(<vscale x 4 x i32> %a, <vscale x 4 x i32> %b) {
  %c = icmp eq <vscale x 4 x i32> %a, %b
  ret <vscale x 4 x i1> %c
}
