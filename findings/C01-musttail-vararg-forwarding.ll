define void @thunk(i8* %this, ...) {
  %f = bitcast i8* %this to void (i8*, ...)*
  musttail call void (i8*, ...) %f(i8* %this, ...)
  ret void
}
