define void @f() {
  br label %a
a:
  br label %b
b:
  ret void
}
