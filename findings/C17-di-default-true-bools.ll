!llvm.dbg.cu = !{!0}
!llvm.module.flags = !{!2}
!0 = distinct !DICompileUnit(language: DW_LANG_C99, file: !1, emissionKind: FullDebug, splitDebugInlining: false)
!1 = !DIFile(filename: "a.c", directory: "/")
!2 = !{i32 2, !"Debug Info Version", i32 3}
