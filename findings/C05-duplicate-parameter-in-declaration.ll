declare void @f(i32 %x, i32 %x)
