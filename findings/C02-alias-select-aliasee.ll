@x = global i32 1
@a = alias i32, i32* select (i1 true, i32* @x, i32* @x)
