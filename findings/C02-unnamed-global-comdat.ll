$"0" = comdat any
@0 = global i32 0, comdat($"0")
