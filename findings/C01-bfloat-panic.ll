define bfloat @f(bfloat %x) {
 ret bfloat %x
}
