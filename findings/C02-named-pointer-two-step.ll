%P = type i32*
define i32 @f() {
  %a = alloca i32
  %b = select i1 true, %P %a, %P null
  %c = load i32, i32* %b
  ret i32 %c
}
