%bool = type i1
@g = global %bool 1
define i8* @f() {
  br label %b
b:
  ret i8* null
}
%byte = type i8
@h = global %byte* blockaddress(@f, %b)
