%$b = type i8
define void @f() {
  callbr void (%$b*) asm sideeffect "", "X"(%$b* blockaddress(@f, %x)) to label %y [label %x]
x:
  ret void
y:
  ret void
}
