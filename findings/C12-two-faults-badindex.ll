@verif.rej = global i32* @verif.no.such.global
@a = global i32 1
@b = global i32 2
@c = global i32 3
@d = global i32 4
define void @verif.badidx() {
  %1 = extractvalue {i32, i8} {i32 1, i8 2}, 5
  ret void
}
