%W = type <vscale x 2 x i64>
define %W @f(%W %x) {
  %y = add %W %x, %x
  ret %W %y
}
