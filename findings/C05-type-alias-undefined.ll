%a = type %b
@g = global %a* null
