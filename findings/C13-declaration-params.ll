declare void @f(i32, i32, i32)

define void @g() {
  call void @f(i32 1, i32 2, i32 3)
  ret void
}
