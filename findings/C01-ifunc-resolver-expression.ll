@ifn = dso_local ifunc void (), bitcast (i8* ()* @resolve to void ()* ()*)
@i2 = ifunc void (), void ()* ()* @r2
define internal i8* @resolve() {
  ret i8* null
}
define internal void ()* @r2() {
  ret void ()* null
}
