@g = global [4 x i32] zeroinitializer
define i32* @f() {
  %q = getelementptr [4 x i32], [4 x i32]* @g, i64 0, i64 add (i64 1, i64 2)
  ret i32* %q
}
define <2 x i32*> @h([4 x i32]* %p) {
  %q = getelementptr [4 x i32], [4 x i32]* %p, i64 0, <2 x i64> <i64 undef, i64 1>
  ret <2 x i32*> %q
}
