declare void @f() preallocated(%undef)
