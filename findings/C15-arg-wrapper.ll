declare void @g(i32)
define void @f(i32 %a, i32 %b) {
  call void @g(i32 signext %a)
  ret void
}
