declare void @f() #0
attributes #0 = { "a"="b" nounwind }
attributes #0 = { "a" = "b" cold }
