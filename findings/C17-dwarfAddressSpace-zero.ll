!nm = !{!0}
!0 = !DIDerivedType(tag: DW_TAG_pointer_type, baseType: !1, dwarfAddressSpace: 0)
!1 = !DIBasicType(name: "int", size: 32, encoding: DW_ATE_signed)
