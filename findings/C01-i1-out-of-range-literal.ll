define void @f() {
  %a = and i1 7, 8
  %b = and i1 u0x3, s0x2
  ret void
}
