; call, invoke and callbr whose callee type is spelled through a named function type: the printer wrote the
; return type only, so the second parse no longer had the named type at the call (structural difference)
%fn = type void ()
%fn2 = type i32 (i32)
declare void @f()
declare i32 @h(i32)
declare i32 @__gxx_personality_v0(...)
define i32 @g(i32 %x) personality i32 (...)* @__gxx_personality_v0 {
  call %fn @f()
  %r = call %fn2 @h(i32 %x)
  %s = invoke %fn2 @h(i32 %r) to label %ok unwind label %lp
ok:
  callbr %fn asm sideeffect "", ""() to label %done []
done:
  ret i32 %s
lp:
  %e = landingpad { i8*, i32 } cleanup
  ret i32 0
}
