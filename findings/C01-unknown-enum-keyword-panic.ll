!0 = !DISubroutineType(cc: DW_CC_LLVM_PreserveMost, types: !1)
!1 = !{null}
