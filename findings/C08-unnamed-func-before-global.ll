define void @0() {
  ret void
}
@1 = global i32 0
