define i32 @f(i32 %x) {
  %y = freeze i32 %x, !foo !0
  ret i32 %y
}
!0 = !{}
