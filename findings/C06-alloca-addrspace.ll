define i32 addrspace(5)* @f() {
  %p = alloca i32, addrspace(5)
  ret i32 addrspace(5)* %p
}
