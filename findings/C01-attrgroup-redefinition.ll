declare void @f() #0
attributes #0 = { alwaysinline cold }
attributes #0 = { cold nounwind }
