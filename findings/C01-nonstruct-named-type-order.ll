%zz = type i8
%T0 = type { %zz }
@g = global %T0 zeroinitializer
