; expect: accepted
; a data layout with a program address space (P1): functions, and the callees of call, invoke and callbr,
; live in that address space when none is written (callbr takes no address space in LLVM 14: its callee here is inline asm) (LLVM prints it; hand-written text and tools that predate
; the keyword leave it out)
target datalayout = "e-P1-i64:64"
declare void @h()
@table = global [2 x void () addrspace(1)*] [void () addrspace(1)* @f, void () addrspace(1)* @h]
define void @f() {
  call void @h()
  ret void
}
define void @explicit() addrspace(1) {
  call addrspace(1) void @f()
  ret void
}
define void @g(void () addrspace(1)** %p) personality i8* null {
  store void () addrspace(1)* @f, void () addrspace(1)** %p
  %fp = load void () addrspace(1)*, void () addrspace(1)** %p
  call void %fp()
  invoke void @f() to label %a unwind label %b
a:
  callbr void asm sideeffect "", "X"(i8 addrspace(1)* blockaddress(@g, %c)) to label %d [label %c]
b:
  %l = landingpad i8 cleanup
  ret void
c:
  ret void
d:
  ret void
}
