define void @f() personality i8* null {
  invoke void asm sideeffect unwind "nop", ""() to label %a unwind label %b
a:
  ret void
b:
  %l = landingpad i32 cleanup
  ret void
}
