%v = type <1 x i1*>

define void @f(%v %p) {
  %g = getelementptr i1, %v %p, <1 x i64> zeroinitializer
  %z = freeze %v %g
  ret void
}
