!named = !{!0, !1}
!0 = !DIBasicType(name: "x", flags: 2097152)
!1 = !DISubprogram(name: "f", spFlags: 1024, flags: DIFlagPublic | 1073741824)
