!named = !{!3, !4}
!3 = !DIEnumerator(name: "a", value: u0xFFFFFFFFFFFFFFFF, isUnsigned: true)
!4 = !DIEnumerator(name: "b", value: u0x4, isUnsigned: true)
