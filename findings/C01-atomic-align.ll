define void @f(i32* %p) {
  %a = cmpxchg i32* %p, i32 0, i32 1 seq_cst seq_cst, align 16
  %b = atomicrmw add i32* %p, i32 1 seq_cst, align 8
  ret void
}
