define i1 @f() {
  ret i1 -1
}
