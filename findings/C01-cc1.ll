declare cc 1 void @f1()
