; a struct index written with a literal too wide for i32 (LLVM reads it modulo 2^32: field 1) made the
; parser panic with a raw index-out-of-range run-time error
@g = global { i32, i8 } zeroinitializer
@h = global i8* getelementptr ({ i32, i8 }, { i32, i8 }* @g, i32 0, i32 4294967297)
define i8* @f({ i32, i8 }* %p) {
  %a = getelementptr { i32, i8 }, { i32, i8 }* %p, i32 0, i32 4294967297
  ret i8* %a
}
