@-0 = global i32 0
@x = global i32* @-0
@-5 = global i32 1
@0 = global i32 2
define void @f(i32 %-0) {
  %-1 = add i32 %-0, 1
 ret void
}
