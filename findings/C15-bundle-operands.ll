declare void @g()
define void @f(i32 %x) {
  call void @g() [ "foo"(i32 %x) ]
  ret void
}
