// vdrv is the driver of the verification harness: it builds a check's test
// binary against /repo's current working tree, runs it in shards, merges the
// evidence, and maps the outcome to exit codes (0 held, 1 violation, 2 inconclusive).
package main

import (
	"bytes"
	"encoding/json"
	"fmt"
	"os"
	"os/exec"
	"path/filepath"
	"regexp"
	"sort"
	"strconv"
	"strings"
	"sync"
	"syscall"
	"time"
)

type fuzzCfg struct {
	Target string
	Time   string
}

type checkCfg struct {
	ID       string
	Pkg      string
	Race     bool
	QShards  int
	TShards  int
	Level    string
	QTimeout time.Duration
	TTimeout time.Duration
	Fuzz     []fuzzCfg // thorough only
}

var checks = map[string]checkCfg{}

func reg(c checkCfg) {
	if c.QShards == 0 {
		c.QShards = 8
	}
	if c.TShards == 0 {
		c.TShards = 16
	}
	if c.Level == "" {
		c.Level = "exploration"
	}
	if c.QTimeout == 0 {
		c.QTimeout = 8 * time.Minute
	}
	if c.TTimeout == 0 {
		c.TTimeout = 90 * time.Minute
	}
	if c.Pkg == "" {
		c.Pkg = "./checks/" + strings.ToLower(c.ID)
	}
	checks[c.ID] = c
}

func init() {
	for i := 1; i <= 20; i++ {
		id := fmt.Sprintf("C%02d", i)
		c := checkCfg{ID: id}
		switch id {
		case "C05", "C19":
			c.Level = "fault_enumeration"
		case "C12", "C13":
			c.Race = true
		}
		reg(c)
	}
}

type violation struct {
	Test   string `json:"test"`
	Msg    string `json:"msg"`
	Replay string `json:"replay"`
}
type sample struct {
	Test string `json:"test"`
	Case string `json:"case"`
}
type partial struct {
	Prop       string            `json:"prop"`
	Evals      int64             `json:"evals"`
	Digests    []uint64          `json:"digests"`
	Hist       map[string]int64  `json:"hist"`
	Discarded  map[string]int64  `json:"discarded"`
	Samples    []sample          `json:"samples"`
	Violations []violation       `json:"violations"`
	KnownSeen  map[string]int64  `json:"known_seen"`
	KnownLines []string          `json:"known_lines"`
	Exhaustive map[string]bool   `json:"exhaustive"`
	Notes      []string          `json:"notes"`
	Rules      map[string]string `json:"rules"`
	WallS      float64           `json:"wall_s"`
	Complete   bool              `json:"complete"`
}

var root string

func goEnv() []string {
	env := os.Environ()
	env = append(env, "GOFLAGS=-mod=mod", "GOPROXY=off", "GOSUMDB=off", "GOTOOLCHAIN=local", "CGO_ENABLED=1")
	return env
}

func die2(format string, args ...any) {
	fmt.Printf("INCONCLUSIVE: "+format+"\n", args...)
	os.Exit(2)
}

func main() {
	if len(os.Args) < 2 {
		fmt.Println("usage: vdrv check <ID> [quick|thorough] | replay <ID> <file> | list")
		os.Exit(2)
	}
	root = os.Getenv("VERIF_ROOT")
	if root == "" {
		exe, _ := os.Executable()
		root = filepath.Dir(filepath.Dir(exe))
		if _, err := os.Stat(filepath.Join(root, "go.mod")); err != nil {
			root, _ = os.Getwd()
		}
	}
	switch os.Args[1] {
	case "list":
		var ids []string
		for id := range checks {
			ids = append(ids, id)
		}
		sort.Strings(ids)
		fmt.Println(strings.Join(ids, " "))
	case "check":
		if len(os.Args) < 3 {
			die2("missing property id")
		}
		tier := "quick"
		if len(os.Args) >= 4 {
			tier = os.Args[3]
		}
		if t := os.Getenv("VERIF_TIER"); t == "quick" || t == "thorough" {
			tier = t
		}
		os.Exit(runCheck(os.Args[2], tier, ""))
	case "replay":
		if len(os.Args) < 4 {
			die2("usage: replay <ID> <file>")
		}
		abs, _ := filepath.Abs(os.Args[3])
		os.Exit(runCheck(os.Args[2], "quick", abs))
	case "fuzz":
		if len(os.Args) < 5 {
			die2("usage: fuzz <ID> <FuzzTarget> <duration> [workers]")
		}
		w := 16
		if len(os.Args) >= 6 {
			if v, err := strconv.Atoi(os.Args[5]); err == nil && v > 0 {
				w = v
			}
		}
		os.Exit(runFuzz(os.Args[2], os.Args[3], os.Args[4], w))
	case "warm":
		os.Exit(warm())
	default:
		die2("unknown command %q", os.Args[1])
	}
}

func repoDir() string {
	if r := os.Getenv("VERIF_REPO"); r != "" {
		return r
	}
	return "/repo"
}

// buildArgs returns extra build flags needed to point at the repo and to supply the hook.
func buildArgs(work string) ([]string, error) {
	var args []string
	repo := repoDir()
	if repo != "/repo" {
		gomod, err := os.ReadFile(filepath.Join(root, "go.mod"))
		if err != nil {
			return nil, err
		}
		s := strings.Replace(string(gomod), "=> /repo", "=> "+repo, 1)
		mf := filepath.Join(work, "go.mod")
		if err := os.WriteFile(mf, []byte(s), 0o644); err != nil {
			return nil, err
		}
		sum, _ := os.ReadFile(filepath.Join(root, "go.sum"))
		os.WriteFile(filepath.Join(work, "go.sum"), sum, 0o644)
		args = append(args, "-modfile="+mf)
	}
	if _, err := os.Stat(filepath.Join(repo, "verifhook", "verifhook.go")); err != nil {
		ov := map[string]map[string]string{"Replace": {
			filepath.Join(repo, "verifhook", "doc.go"):       filepath.Join(root, "hookfiles", "doc.go"),
			filepath.Join(repo, "verifhook", "verifhook.go"): filepath.Join(root, "hookfiles", "verifhook.go"),
		}}
		buf, _ := json.Marshal(ov)
		of := filepath.Join(work, "overlay.json")
		os.WriteFile(of, buf, 0o644)
		args = append(args, "-overlay="+of)
	}
	return args, nil
}

func build(c checkCfg, work string) (string, string, error) {
	bin := filepath.Join(work, "test.bin")
	extra, err := buildArgs(work)
	if err != nil {
		return "", "", err
	}
	args := []string{"test", "-c", "-tags", "verif", "-vet=off", "-o", bin}
	if c.Race {
		args = append(args, "-race")
	}
	if os.Getenv("VERIF_COVER") != "" {
		// measurement mode (not a check): statement coverage of the library under the check's own cases
		args = append(args, "-cover", "-coverpkg=github.com/llir/llvm/...")
	}
	args = append(args, extra...)
	args = append(args, c.Pkg)
	cmd := exec.Command("go", args...)
	cmd.Dir = root
	cmd.Env = goEnv()
	out, err := cmd.CombinedOutput()
	return bin, string(out), err
}

func warm() int {
	var ids []string
	for id := range checks {
		ids = append(ids, id)
	}
	sort.Strings(ids)
	work := filepath.Join(root, ".work", fmt.Sprintf("warm-%d", os.Getpid()))
	os.MkdirAll(work, 0o755)
	defer os.RemoveAll(work)
	rc := 0
	for _, id := range ids {
		c := checks[id]
		if _, err := os.Stat(filepath.Join(root, c.Pkg)); err != nil {
			continue
		}
		_, out, err := build(c, work)
		if err != nil {
			fmt.Printf("warm %s: build failed: %v\n%s\n", id, err, out)
			rc = 2
		} else {
			fmt.Printf("warm %s: ok\n", id)
		}
	}
	return rc
}

type shardRes struct {
	idx      int
	exit     int
	timedOut bool
	log      string
}

func runShard(bin, work string, c checkCfg, tier string, seed int64, idx, n int, timeout time.Duration, extraEnv []string, replay string) shardRes {
	args := []string{"-test.timeout", (timeout + 30*time.Second).String(), "-test.count=1"}
	if replay != "" {
		args = append(args, "-test.run", "^TestReplay$", "-test.v")
	} else {
		args = append(args, "-test.skip", "^TestReplay$")
	}
	if d := os.Getenv("VERIF_COVER"); d != "" {
		os.MkdirAll(d, 0o755)
		args = append(args, "-test.coverprofile", filepath.Join(d, fmt.Sprintf("%s-%s-%d.out", filepath.Base(c.Pkg), tier, idx)))
	}
	cmd := exec.Command(bin, args...)
	cmd.Dir = filepath.Join(root, c.Pkg)
	env := append(os.Environ(),
		"VERIF_ROOT="+root, "VERIF_OUT="+work, "VERIF_TIER="+tier,
		"VERIF_SEED="+strconv.FormatInt(seed, 10),
		"VERIF_SHARD="+strconv.Itoa(idx), "VERIF_NSHARDS="+strconv.Itoa(n),
		"VERIF_REPO="+repoDir(),
	)
	if replay != "" {
		env = append(env, "VERIF_REPLAY="+replay)
	}
	if c.Race {
		env = append(env, "GORACE=halt_on_error=0 log_path="+filepath.Join(work, fmt.Sprintf("race-%d", idx)))
	}
	env = append(env, extraEnv...)
	cmd.Env = env
	cmd.SysProcAttr = &syscall.SysProcAttr{Setpgid: true}
	var buf bytes.Buffer
	cmd.Stdout = &buf
	cmd.Stderr = &buf
	res := shardRes{idx: idx}
	if err := cmd.Start(); err != nil {
		res.exit = 99
		res.log = err.Error()
		return res
	}
	done := make(chan error, 1)
	go func() { done <- cmd.Wait() }()
	select {
	case err := <-done:
		if err != nil {
			if ee, ok := err.(*exec.ExitError); ok {
				res.exit = ee.ExitCode()
			} else {
				res.exit = 99
			}
		}
	case <-time.After(timeout + 60*time.Second):
		syscall.Kill(-cmd.Process.Pid, syscall.SIGKILL)
		<-done
		res.timedOut = true
		res.exit = 98
	}
	res.log = buf.String()
	os.WriteFile(filepath.Join(work, fmt.Sprintf("shard-%d.log", idx)), buf.Bytes(), 0o644)
	return res
}

func runCheck(id, tier, replay string) int {
	c, ok := checks[id]
	if !ok {
		die2("unknown property %q", id)
	}
	if _, err := os.Stat(filepath.Join(root, c.Pkg)); err != nil {
		die2("no check package for %s", id)
	}
	seed := int64(1)
	if s := os.Getenv("VERIF_SEED"); s != "" {
		if v, err := strconv.ParseInt(s, 10, 64); err == nil {
			seed = v
		}
	}
	t0 := time.Now()
	work := filepath.Join(root, ".work", fmt.Sprintf("%s-%d", id, os.Getpid()))
	os.MkdirAll(work, 0o755)
	keep := os.Getenv("VERIF_KEEP") != ""
	defer func() {
		if !keep {
			os.RemoveAll(work)
		}
	}()
	bin, out, err := build(c, work)
	if err != nil {
		fmt.Printf("build of %s against %s failed:\n%s\n", c.Pkg, repoDir(), out)
		if !keep {
			os.RemoveAll(work)
		}
		die2("harness does not build against the working tree")
	}
	n := c.QShards
	timeout := c.QTimeout
	if tier == "thorough" {
		n = c.TShards
		timeout = c.TTimeout
	}
	if replay != "" {
		n = 1
	}
	if s := os.Getenv("VERIF_SHARDS"); s != "" {
		if v, err := strconv.Atoi(s); err == nil && v > 0 {
			n = v
		}
	}
	results := make([]shardRes, n)
	var wg sync.WaitGroup
	sem := make(chan struct{}, 16)
	for i := 0; i < n; i++ {
		wg.Add(1)
		go func(i int) {
			defer wg.Done()
			sem <- struct{}{}
			defer func() { <-sem }()
			results[i] = runShard(bin, work, c, tier, seed, i, n, timeout, nil, replay)
		}(i)
	}
	wg.Wait()

	// Regression inputs of repaired defects ("fixed:" lines of KNOWN_FINDINGS.txt that name this property):
	// each is replayed through the package's TestReplay in its own process; a fixed entry suppresses
	// nothing, so a defect that returns is reported again.
	var regViol []violation
	var regRan, regNotJudged int
	if replay == "" {
		files := regressionFiles(id)
		rsem := make(chan struct{}, 16)
		var rmu sync.Mutex
		var rwg sync.WaitGroup
		for k, f := range files {
			rwg.Add(1)
			go func(k int, f string) {
				defer rwg.Done()
				rsem <- struct{}{}
				defer func() { <-rsem }()
				rwork := filepath.Join(work, fmt.Sprintf("reg-%d", k))
				os.MkdirAll(rwork, 0o755)
				r := runShard(bin, rwork, c, tier, seed, 0, 1, 5*time.Minute, nil, f)
				rmu.Lock()
				defer rmu.Unlock()
				regRan++
				buf, err := os.ReadFile(filepath.Join(rwork, "shard-0.json"))
				var p partial
				if err == nil && json.Unmarshal(buf, &p) == nil {
					for _, v := range p.Violations {
						v.Test = "FixedRegression(" + filepath.Base(f) + ")/" + v.Test
						regViol = append(regViol, v)
					}
				}
				if r.exit != 0 && len(p.Violations) == 0 && !strings.Contains(r.log, "VIOLATION-CASE") {
					regNotJudged++
				}
			}(k, f)
		}
		rwg.Wait()
	}

	// merge
	var (
		evals      int64
		digests    = map[uint64]struct{}{}
		hist       = map[string]int64{}
		discarded  = map[string]int64{}
		known      = map[string]int64{}
		samples    []sample
		violations []violation
		knownLines []string
		notes      []string
		rules      = map[string]string{}
		exhaustive = map[string]bool{}
		incomplete []string
	)
	seenLine := map[string]bool{}
	seenNote := map[string]bool{}
	for i := 0; i < n; i++ {
		buf, err := os.ReadFile(filepath.Join(work, fmt.Sprintf("shard-%d.json", i)))
		if err != nil {
			incomplete = append(incomplete, fmt.Sprintf("shard %d wrote no evidence", i))
			continue
		}
		var p partial
		if err := json.Unmarshal(buf, &p); err != nil {
			incomplete = append(incomplete, fmt.Sprintf("shard %d evidence unreadable", i))
			continue
		}
		evals += p.Evals
		for _, d := range p.Digests {
			digests[d] = struct{}{}
		}
		for k, v := range p.Hist {
			hist[k] += v
		}
		for k, v := range p.Discarded {
			discarded[k] += v
		}
		for k, v := range p.KnownSeen {
			known[k] += v
		}
		if i < 3 {
			for _, s := range p.Samples {
				if len(samples) < 8 {
					samples = append(samples, s)
				}
			}
		}
		violations = append(violations, p.Violations...)
		for _, l := range p.KnownLines {
			if !seenLine[l] {
				seenLine[l] = true
				knownLines = append(knownLines, l)
			}
		}
		for _, l := range p.Notes {
			if !seenNote[l] {
				seenNote[l] = true
				notes = append(notes, l)
			}
		}
		for k, v := range p.Rules {
			rules[k] = v
		}
		for k, v := range p.Exhaustive {
			if prev, ok := exhaustive[k]; ok {
				exhaustive[k] = prev && v
			} else {
				exhaustive[k] = v
			}
		}
		if !p.Complete {
			incomplete = append(incomplete, fmt.Sprintf("shard %d did not finish", i))
		}
	}
	violations = append(violations, regViol...)
	hist["fixed_regression_inputs_replayed"] += int64(regRan)
	if regNotJudged > 0 {
		hist["fixed_regression_inputs_replay_failed"] += int64(regNotJudged)
	}
	crashed := false
	for _, r := range results {
		if r.timedOut {
			incomplete = append(incomplete, fmt.Sprintf("shard %d hit the time budget", r.idx))
			continue
		}
		if r.exit != 0 {
			hasV := strings.Contains(r.log, "VIOLATION-CASE")
			if !hasV {
				if strings.Contains(r.log, "fatal error:") || strings.Contains(r.log, "goroutine stack exceeds") || strings.Contains(r.log, "unexpected signal") {
					crashed = true
				}
				// a plain (non-rapid) test killed by a panic raised inside the library
				if strings.Contains(r.log, "panic:") && panicInLibrary(r.log) {
					crashed = true
				}
				incomplete = append(incomplete, fmt.Sprintf("shard %d exited %d without a recorded violation", r.idx, r.exit))
				// drop rapid's draw log, keep what explains the failure
				var keep []string
				for _, l := range strings.Split(r.log, "\n") {
					if !strings.Contains(l, "[rapid] draw") {
						keep = append(keep, l)
					}
				}
				tail := strings.Join(keep, "\n")
				if len(tail) > 4000 {
					tail = tail[:2000] + "\n…\n" + tail[len(tail)-2000:]
				}
				fmt.Printf("---- shard %d output (tail) ----\n%s\n", r.idx, tail)
			}
		}
	}
	// race reports that no test attributed to a case
	if c.Race && len(violations) == 0 && replay == "" {
		ms, _ := filepath.Glob(filepath.Join(work, "race-*"))
		for _, f := range ms {
			b, _ := os.ReadFile(f)
			if len(b) > 0 {
				dir := filepath.Join(root, "replays", id)
				os.MkdirAll(dir, 0o755)
				dst := filepath.Join(dir, fmt.Sprintf("race-%s-seed%d-%s.txt", tier, seed, filepath.Base(f)))
				os.WriteFile(dst, b, 0o644)
				msg := string(b)
				if len(msg) > 1500 {
					msg = msg[:1500]
				}
				violations = append(violations, violation{Test: "race-detector", Msg: "data race reported outside any attributed case:\n" + msg, Replay: dst})
				break
			}
		}
	}
	// A shard killed by an unrecoverable runtime error: re-run it with case tracing;
	// the last traced case is the crashing input.
	if crashed && len(violations) == 0 && replay == "" {
		for _, r := range results {
			if r.exit == 0 || r.timedOut {
				continue
			}
			rr := runShard(bin, work, c, tier, seed, r.idx, n, timeout, []string{"VERIF_TRACE=1"}, "")
			if rr.exit != 0 && !rr.timedOut {
				td := filepath.Join(work, fmt.Sprintf("trace-%d", r.idx))
				ents, _ := os.ReadDir(td)
				for _, e := range ents {
					if strings.HasPrefix(e.Name(), "last.") && e.Name() != "last.test" {
						tn, _ := os.ReadFile(filepath.Join(td, "last.test"))
						dir := filepath.Join(root, "replays", id)
						os.MkdirAll(dir, 0o755)
						dst := filepath.Join(dir, fmt.Sprintf("crash-%s-seed%d-s%d%s", tier, seed, r.idx, filepath.Ext(e.Name())))
						b, _ := os.ReadFile(filepath.Join(td, e.Name()))
						os.WriteFile(dst, b, 0o644)
						tail := rr.log
						if i := strings.Index(tail, "fatal error:"); i >= 0 {
							tail = tail[i:]
						} else if i := strings.Index(tail, "panic:"); i >= 0 {
							tail = tail[i:]
						}
						if len(tail) > 1500 {
							tail = tail[:1500]
						}
						violations = append(violations, violation{Test: string(tn), Msg: "process died while evaluating this case: " + tail, Replay: dst})
					}
				}
				if len(violations) == 0 && panicInLibrary(rr.log) {
					// no traced case: the crash log (test name, seed, stack) is the reproduction
					dir := filepath.Join(root, "replays", id)
					os.MkdirAll(dir, 0o755)
					dst := filepath.Join(dir, fmt.Sprintf("crash-%s-seed%d-s%d.log", tier, seed, r.idx))
					tail := rr.log
					if i := strings.Index(tail, "panic:"); i >= 0 {
						tail = tail[i:]
					}
					if len(tail) > 6000 {
						tail = tail[:6000]
					}
					os.WriteFile(dst, []byte(fmt.Sprintf("VERIF_SEED=%d shard %d of %d, tier %s: the test process panicked inside the library\n%s", seed, r.idx, n, tier, tail)), 0o644)
					if len(tail) > 1500 {
						tail = tail[:1500]
					}
					violations = append(violations, violation{Test: "library-panic", Msg: "the library panicked while a property was evaluated: " + tail, Replay: dst})
				}
			}
			break
		}
	}

	// evidence
	if replay == "" && os.Getenv("VERIF_NOEVIDENCE") == "" {
		var ruleParts []string
		var rk []string
		for k := range rules {
			rk = append(rk, k)
		}
		sort.Strings(rk)
		for _, k := range rk {
			ruleParts = append(ruleParts, k+": "+rules[k])
		}
		exh := len(exhaustive) > 0
		var exhTests []string
		for k, v := range exhaustive {
			if v {
				exhTests = append(exhTests, k)
			}
		}
		sort.Strings(exhTests)
		if len(exhTests) == 0 {
			exh = false
		}
		var samp []any
		for _, s := range samples {
			samp = append(samp, s)
		}
		cov := map[string]any{
			"evaluations":         evals,
			"distinct_nontrivial": len(digests),
			"rule":                strings.Join(ruleParts, " || "),
			"samples":             samp,
			"histogram":           hist,
			"discarded":           discarded,
			"known_findings_seen": known,
			"shards":              n,
		}
		if exh && len(incomplete) == 0 {
			cov["exhaustive"] = true
			cov["exhaustive_parts"] = exhTests
		}
		if len(incomplete) > 0 {
			cov["incomplete"] = incomplete
		}
		if len(violations) > 0 {
			cov["violation_details"] = violations
		}
		ev := map[string]any{
			"property_id": id,
			"tier":        tier,
			"seed":        seed,
			"level":       c.Level,
			"coverage":    cov,
			"assumptions": notes,
			"wall_s":      time.Since(t0).Seconds(),
			"violations":  len(violations),
		}
		if notes == nil {
			ev["assumptions"] = []string{}
		}
		buf, _ := json.MarshalIndent(ev, "", " ")
		os.MkdirAll(filepath.Join(root, "evidence"), 0o755)
		tmp := filepath.Join(root, "evidence", id+".json.tmp")
		os.WriteFile(tmp, buf, 0o644)
		os.Rename(tmp, filepath.Join(root, "evidence", id+".json"))
	}

	for _, l := range knownLines {
		fmt.Println(l)
	}
	if len(violations) > 0 {
		for _, v := range violations {
			fmt.Printf("VIOLATION property=%s replay=%s\n", id, v.Replay)
			fmt.Printf("  test=%s: %s\n", v.Test, firstLines(v.Msg, 12))
		}
		return 1
	}
	if len(incomplete) > 0 {
		fmt.Printf("INCONCLUSIVE property=%s: %s\n", id, strings.Join(incomplete, "; "))
		return 2
	}
	if replay != "" {
		fmt.Printf("REPLAY property=%s: no violation on %s\n", id, replay)
		return 0
	}
	fmt.Printf("OK property=%s tier=%s seed=%d evaluations=%d distinct_nontrivial=%d wall=%.1fs\n", id, tier, seed, evals, len(digests), time.Since(t0).Seconds())
	return 0
}

func firstLines(s string, n int) string {
	lines := strings.Split(s, "\n")
	if len(lines) > n {
		lines = append(lines[:n], "…")
	}
	return strings.Join(lines, "\n    ")
}

// runFuzz runs one native coverage-guided campaign (go test -fuzz) of a check package's fuzz target.
// It is an exploration tool, not a registered check: Go's fuzzer cannot be pinned to a seed, so the
// deterministic tiers replay what campaigns found (corpus/<id>/) instead of fuzzing live. The campaign
// runs in a scratch directory under .work; the generated corpus is kept under .work/fuzz-<ID>-<target>/corpus
// (for harvesting), a failing input is decoded into replays/<ID>/.
func runFuzz(id, target, dur string, workers int) int {
	c, ok := checks[id]
	if !ok {
		die2("unknown property %q", id)
	}
	work := filepath.Join(root, ".work", fmt.Sprintf("fuzz-%s-%s", id, target))
	os.MkdirAll(filepath.Join(work, "cwd"), 0o755)
	os.MkdirAll(filepath.Join(work, "out"), 0o755)
	extra, err := buildArgs(work)
	if err != nil {
		die2("%v", err)
	}
	bin := filepath.Join(work, "fuzz.bin")
	args := []string{"test", "-c", "-tags", "verif", "-vet=off", "-fuzz", "^" + target + "$", "-o", bin}
	args = append(args, extra...)
	args = append(args, c.Pkg)
	cmd := exec.Command("go", args...)
	cmd.Dir = root
	cmd.Env = goEnv()
	if out, err := cmd.CombinedOutput(); err != nil {
		fmt.Printf("%s\n", out)
		die2("fuzz binary does not build")
	}
	run := exec.Command(bin, "-test.run", "^$", "-test.fuzz", "^"+target+"$", "-test.fuzztime", dur,
		"-test.fuzzcachedir", filepath.Join(work, "corpus"), "-test.parallel", strconv.Itoa(workers), "-test.timeout", "0")
	run.Dir = filepath.Join(work, "cwd")
	run.Env = append(os.Environ(), "VERIF_ROOT="+root, "VERIF_OUT="+filepath.Join(work, "out"), "VERIF_TIER=thorough",
		"VERIF_SEED=1", "VERIF_SHARD=0", "VERIF_NSHARDS=1", "VERIF_REPO="+repoDir(), "VERIF_FUZZ=1")
	run.Stdout = os.Stdout
	run.Stderr = os.Stderr
	rerr := run.Run()
	// crashers
	ms, _ := filepath.Glob(filepath.Join(work, "cwd", "testdata", "fuzz", target, "*"))
	for _, f := range ms {
		b, _ := os.ReadFile(f)
		lines := strings.SplitN(string(b), "\n", 3)
		if len(lines) >= 2 && strings.HasPrefix(lines[1], "[]byte(") {
			q := strings.TrimSuffix(strings.TrimPrefix(strings.TrimSpace(lines[1]), "[]byte("), ")")
			if raw, err := strconv.Unquote(q); err == nil {
				dir := filepath.Join(root, "replays", id)
				os.MkdirAll(dir, 0o755)
				dst := filepath.Join(dir, "fuzz-"+target+"-"+filepath.Base(f)+".ll")
				os.WriteFile(dst, []byte(raw), 0o644)
				fmt.Printf("FUZZ-FAILURE property=%s replay=%s\n", id, dst)
			}
		}
	}
	if rerr != nil {
		return 1
	}
	return 0
}

var reFinding = regexp.MustCompile(`findings/[A-Za-z0-9_.\-]+\.[a-z]+`)

// regressionFiles returns the regression inputs named by the "fixed:" lines of property id.
func regressionFiles(id string) []string {
	buf, err := os.ReadFile(filepath.Join(root, "KNOWN_FINDINGS.txt"))
	if err != nil {
		return nil
	}
	seen := map[string]bool{}
	var out []string
	for _, line := range strings.Split(string(buf), "\n") {
		if !strings.HasPrefix(line, "fixed: property="+id+" ") {
			continue
		}
		for _, m := range reFinding.FindAllString(line, -1) {
			p := filepath.Join(root, m)
			if _, err := os.Stat(p); err == nil && !seen[p] {
				seen[p] = true
				out = append(out, p)
			}
		}
	}
	sort.Strings(out)
	return out
}

// panicInLibrary reports whether the innermost frame below a panic that is neither runtime nor testing
// code lies in the library under test (same rule as hx.PanicInLibrary).
func panicInLibrary(log string) bool {
	lines := strings.Split(log, "\n")
	seenPanic := false
	for i := 0; i+1 < len(lines); i++ {
		l := lines[i]
		if strings.HasPrefix(l, "panic(") {
			seenPanic = true
			continue
		}
		if !seenPanic || strings.HasPrefix(l, "\t") || strings.HasPrefix(l, "goroutine") || l == "" {
			continue
		}
		if strings.HasPrefix(l, "runtime.") || strings.HasPrefix(l, "runtime/") || strings.HasPrefix(l, "testing.") {
			continue
		}
		return strings.HasPrefix(l, "github.com/llir/llvm/")
	}
	return false
}
