#!/bin/bash
# usage: selftest/run_all.sh  — runs every mutant patch and every stored seeded change against the quick tier
# of its property (in scratch copies of /repo, never in /repo itself) and prints one line per change.
# A line "MISSED" means the check exited 0 against a change that breaks its property.
here=$(cd "$(dirname "$0")/.." && pwd)
fail=0
for p in "$here"/selftest/mutants/*.patch; do
  id=$(basename "$p" | cut -c1-3)
  rc=$(VERIF_SEED=${SEED:-1} "$here/selftest/run_mutant.sh" "$p" "$id" quick >/dev/null 2>&1; echo $?)
  if [ "$rc" = 1 ]; then echo "caught  $id mutant $(basename "$p")"; else echo "MISSED  $id mutant $(basename "$p") (exit $rc)"; fail=1; fi
done
for d in "$here"/seeded/*/; do
  tag=$(basename "$d"); id=${tag:0:3}
  if [ -e "$d/NEUTRALISED" ]; then echo "skipped $id seeded $tag (a later repair of the library makes this change harmless)"; continue; fi
  rc=$(VERIF_SEED=${SEED:-1} "$here/selftest/run_mutant.sh" "$d/patch.diff" "$id" quick >/dev/null 2>&1; echo $?)
  if [ "$rc" = 1 ]; then echo "caught  $id seeded $tag"; else echo "MISSED  $id seeded $tag (exit $rc)"; fail=1; fi
done
exit $fail
