mkmut () 
{ 
    python3 - "$@" <<'EOF'
import sys, subprocess, os, shutil, tempfile
name, rel, old, new = sys.argv[1:5]
d=tempfile.mkdtemp()
os.makedirs(os.path.join(d,'a',os.path.dirname(rel))); os.makedirs(os.path.join(d,'b',os.path.dirname(rel)))
s=open('/repo/'+rel).read()
old=old.encode().decode('unicode_escape'); new=new.encode().decode('unicode_escape')
assert old in s, "pattern not found for "+name
open(os.path.join(d,'a',rel),'w').write(s); open(os.path.join(d,'b',rel),'w').write(s.replace(old,new,1))
out=subprocess.run(['diff','-u','a/'+rel,'b/'+rel],cwd=d,capture_output=True,text=True).stdout
open('/verif/selftest/mutants/'+name,'w').write(out)
shutil.rmtree(d)
EOF

}
