#!/bin/bash
# usage: selftest/run_all_par.sh [jobs]  — selftest/run_all.sh with several changes in flight at once
# (each in its own scratch copy of /repo). Prints one line per change; "MISSED" = the check exited 0.
here=$(cd "$(dirname "$0")/.." && pwd)
jobs=${1:-4}
one() {
  here=$1; p=$2
  case "$p" in
    *.patch) id=$(basename "$p" | cut -c1-3); what="mutant $(basename "$p")";;
    *) tag=$(basename "$(dirname "$p")"); id=${tag:0:3}; what="seeded $tag"
       if [ -e "$(dirname "$p")/NEUTRALISED" ]; then echo "skipped $id $what"; exit 0; fi;;
  esac
  VERIF_SEED=${SEED:-1} "$here/selftest/run_mutant.sh" "$p" "$id" quick >/dev/null 2>&1; rc=$?
  if [ "$rc" = 1 ]; then echo "caught  $id $what"; else echo "MISSED  $id $what (exit $rc)"; fi
}
export -f one
{ ls "$here"/selftest/mutants/*.patch; ls "$here"/seeded/*/patch.diff; } | xargs -P "$jobs" -I{} bash -c 'one "$0" "$1"' "$here" {}
