#!/bin/bash
# usage: selftest/run_mutant.sh <patch> <ID> [tier]   — applies <patch> to a scratch copy of /repo
# (outside /repo and /verif), runs the check against it, deletes the copy. Prints the check's exit code.
set -u
patch=$(readlink -f "$1"); id=$2; tier=${3:-quick}
here=$(dirname "$(readlink -f "$0")")/..
scratch=$(mktemp -d /tmp/vmut.XXXXXX)
trap 'rm -rf "$scratch"' EXIT
rsync -a --exclude .git /repo/ "$scratch/repo/"
if ! (cd "$scratch/repo" && patch -p1 -s --fuzz=3 < "$patch"); then echo "MUTANT-PATCH-FAILED $patch"; exit 3; fi
if [ -n "${MUT_BASELINE:-}" ]; then
  (cd "$scratch/repo" && GOFLAGS=-mod=mod GOPROXY=off GOSUMDB=off GOTOOLCHAIN=local go test -mod=mod -vet=off -count=1 ./... >/dev/null 2>&1) || { echo "MUTANT-BREAKS-BASELINE $patch"; exit 4; }
fi
VERIF_REPO="$scratch/repo" VERIF_NOEVIDENCE=1 "$here/verif" check "$id" "$tier" > "$scratch/out.txt" 2>&1
rc=$?
grep -E "^(VIOLATION|INCONCLUSIVE|OK|KNOWN-FINDING)" "$scratch/out.txt" | head -5
echo "mutant $(basename "$patch") on $id: exit=$rc"
exit $rc
