#!/bin/bash
# usage: selftest/seeded.sh <ID> <agent worktree dir> [tag]
# Confirms a sub-agent's seeded change in a fresh scratch worktree (tests pass with it, the demonstration
# fails with it and passes without), stores it under /verif/seeded/<tag>/ and runs the property's check
# against it in /repo (apply, run, undo).
set -u
id=$1; src=$2; tag=${3:-$id}; DEMOFLAGS=${DEMOFLAGS:-}
export GOFLAGS=-mod=mod GOPROXY=off GOSUMDB=off GOTOOLCHAIN=local
here=$(cd "$(dirname "$0")/.." && pwd)
wt=/tmp/sv-$tag
git -C /repo worktree remove --force $wt >/dev/null 2>&1; rm -rf $wt
git -C /repo worktree add --detach $wt HEAD -q || exit 3
trap 'git -C /repo worktree remove --force '$wt' >/dev/null 2>&1; rm -rf '$wt'' EXIT
cp -r $src/seeddemo $wt/seeddemo 2>/dev/null
res_without=$(cd $wt && go test $DEMOFLAGS -mod=mod -vet=off -count=1 ./seeddemo/... >/tmp/sv-$tag.without.log 2>&1; echo $?)
(cd $wt && git apply $src/seed.patch) || { echo "PATCH DOES NOT APPLY"; exit 3; }
res_build=$(cd $wt && go build ./... >/dev/null 2>&1; echo $?)
res_tests=$(cd $wt && go test -mod=mod -vet=off -count=1 $(go list ./... | grep -v seeddemo) >/tmp/sv-$tag.tests.log 2>&1; echo $?)
res_with=$(cd $wt && go test $DEMOFLAGS -mod=mod -vet=off -count=1 ./seeddemo/... >/tmp/sv-$tag.with.log 2>&1; echo $?)
echo "build=$res_build tests=$res_tests demo_with_change=$res_with demo_without_change=$res_without"
if [ "$res_build" != 0 ] || [ "$res_tests" != 0 ] || [ "$res_with" = 0 ] || [ "$res_without" != 0 ]; then
  echo "NOT CONFIRMED: build/tests must be 0, demo must fail with the change and pass without"; tail -n 5 /tmp/sv-$tag.with.log /tmp/sv-$tag.without.log /tmp/sv-$tag.tests.log; rm -f /tmp/sv-$tag.*.log; exit 4
fi
mkdir -p $here/seeded/$tag
cp $src/seed.patch $here/seeded/$tag/patch.diff
rm -rf $here/seeded/$tag/seeddemo; cp -r $src/seeddemo $here/seeded/$tag/seeddemo
cp $src/SEED_META.md $here/seeded/$tag/AGENT_NOTES.md 2>/dev/null
# run the check against the change in /repo itself, then undo; with SCRATCH=1 (another run is
# building from /repo at the same time) the check runs against the scratch worktree instead
if [ -n "${SCRATCH:-}" ]; then
  rm -rf $wt/seeddemo
  q=$(cd $here && VERIF_REPO=$wt VERIF_NOEVIDENCE=1 ./verif check $id quick > /tmp/sv-$tag.check.log 2>&1; echo $?)
else
  if [ -n "$(git -C /repo status --porcelain)" ]; then echo "/repo is not clean"; exit 5; fi
  git -C /repo apply $here/seeded/$tag/patch.diff
  q=$(cd $here && VERIF_NOEVIDENCE=1 ./verif check $id quick > /tmp/sv-$tag.check.log 2>&1; echo $?)
  git -C /repo checkout -- . ; git -C /repo clean -fdq -- . 2>/dev/null
fi
echo "check $id quick against the seeded change: exit=$q"
grep -m3 -E "^(VIOLATION|INCONCLUSIVE|OK)" /tmp/sv-$tag.check.log
grep -m1 -A3 "^  test=" /tmp/sv-$tag.check.log | cut -c1-400
rm -f $here/seeded/$tag/.quick_exit
python3 - "$id" "$tag" "$q" "$here" <<'PY'
import json, sys, subprocess, os
pid, tag, q, here = sys.argv[1:5]
d = os.path.join(here, "seeded", tag)
head = subprocess.run(["git", "-C", "/repo", "log", "--format=%h", "-1"], capture_output=True, text=True).stdout.strip()
needs = os.environ.get("NEEDS", "")
mp = os.path.join(d, "meta.json")
old = {}
if os.path.exists(mp):
    old = json.load(open(mp))
meta = {
  "property": pid,
  "breaks": os.environ.get("BREAKS", old.get("breaks", "")),
  "needs_to_manifest": needs or old.get("needs_to_manifest", ""),
  "written_by": "sub-agent that saw only the property text and a scratch worktree of /repo",
  "confirmed_at_repo_commit": head,
  "confirmation": {
    "ran": [
      "git worktree add --detach /tmp/sv-%s HEAD (fresh scratch worktree, removed afterwards)" % tag,
      "go test %s ./seeddemo/... without the change: pass (exit 0)" % os.environ.get("DEMOFLAGS",""),
      "git apply patch.diff; go build ./...: exit 0",
      "go test -mod=mod -vet=off -count=1 <all packages except seeddemo>: exit 0 (existing suite passes with the change)",
      "go test %s ./seeddemo/... with the change: FAIL (exit 1)" % os.environ.get("DEMOFLAGS",""),
    ],
  },
  "check_result": {
    "command": "git -C /repo apply /verif/seeded/%s/patch.diff && ./verif check %s quick ; git -C /repo checkout -- ." % (tag, pid),
    "quick_exit": int(q),
    "detected": q == "1",
  },
  "history": old.get("history", []),
}
json.dump(meta, open(mp, "w"), indent=1)
PY
rm -f /tmp/sv-$tag.*.log
