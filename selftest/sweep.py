#!/usr/bin/env python3
"""Mechanical mutation sweep (self-test of the checks, never touches /repo).

usage: selftest/sweep.py <ID> <count> [--seed N] [--jobs J] [--files glob,glob]

For property <ID>: single-point mutants (tools/gomut: operator swaps, negated and dropped ifs, deleted
statements, dropped case values, emptied case bodies, emptied short strings, 0<->1) are sampled from the
files the property is anchored in. Each mutant is applied to a scratch copy of /repo under /tmp; mutants
that do not compile or that the repository's own tests notice are set aside; for the others the property's
quick check runs against the copy. One JSON line per mutant goes to selftest/sweep/<ID>.jsonl:
status = nocompile | killed_by_repo_tests | caught | survived | inconclusive.
Survivors are either equivalent mutants (the property is not affected) or gaps; they are reviewed by hand
(see DESIGN.md 8.9).
"""
import sys, os, json, glob, random, subprocess, tempfile, shutil, argparse, concurrent.futures as cf

HERE = os.path.dirname(os.path.dirname(os.path.abspath(__file__)))
REPO = "/repo"
ENV = dict(os.environ, GOFLAGS="-mod=mod", GOPROXY="off", GOSUMDB="off", GOTOOLCHAIN="local")


def anchors(pid):
    for l in open(os.path.join(HERE, "properties.jsonl")):
        d = json.loads(l)
        if d["id"] == pid:
            out = []
            for f in d["anchors"]["files"]:
                out += [p for p in sorted(glob.glob(os.path.join(REPO, f))) if p.endswith(".go") and not p.endswith("_test.go")]
            return out
    raise SystemExit("no such property " + pid)


def list_mutants(path):
    r = subprocess.run([os.path.join(HERE, "bin/gomut"), "-list", path], capture_output=True, text=True)
    out = []
    for l in r.stdout.splitlines():
        i, kind, line, fn, desc = l.split("\t", 4)
        out.append((path, int(i), kind, int(line), fn + ": " + desc))
    return out


def run_one(pid, m, seed):
    path, idx, kind, line, desc = m
    rel = os.path.relpath(path, REPO)
    rec = dict(property=pid, file=rel, mutant=idx, kind=kind, line=line, desc=desc, seed=seed)
    scratch = tempfile.mkdtemp(prefix="vsweep.", dir="/tmp")
    try:
        repo = os.path.join(scratch, "repo")
        subprocess.run(["rsync", "-a", "--exclude", ".git", REPO + "/", repo + "/"], check=True)
        src = subprocess.run([os.path.join(HERE, "bin/gomut"), "-n", str(idx), path], capture_output=True).stdout
        open(os.path.join(repo, rel), "wb").write(src)
        r = subprocess.run(["go", "build", "./..."], cwd=repo, env=ENV, capture_output=True, text=True)
        if r.returncode != 0:
            rec["status"] = "nocompile"
            return rec
        r = subprocess.run(["go", "test", "-mod=mod", "-vet=off", "-count=1", "./..."], cwd=repo, env=ENV, capture_output=True, text=True)
        if r.returncode != 0:
            rec["status"] = "killed_by_repo_tests"
            return rec
        r = subprocess.run([os.path.join(HERE, "verif"), "check", pid, "quick"], env=dict(ENV, VERIF_REPO=repo, VERIF_NOEVIDENCE="1", VERIF_SEED=str(seed)), capture_output=True, text=True)
        rec["exit"] = r.returncode
        rec["status"] = {0: "survived", 1: "caught"}.get(r.returncode, "inconclusive")
        if r.returncode == 1:
            v = [l for l in r.stdout.splitlines() if l.startswith("VIOLATION")]
            rec["by"] = v[0][:200] if v else ""
        elif r.returncode != 0:
            rec["tail"] = r.stdout[-400:]
        return rec
    finally:
        shutil.rmtree(scratch, ignore_errors=True)


def main():
    ap = argparse.ArgumentParser()
    ap.add_argument("pid")
    ap.add_argument("count", type=int)
    ap.add_argument("--seed", type=int, default=1)
    ap.add_argument("--jobs", type=int, default=2)
    ap.add_argument("--files", default="")
    ap.add_argument("--funcs", default="", help="regex on Recv.Func of the enclosing function")
    a = ap.parse_args()
    files = anchors(a.pid)
    if a.files:
        files = []
        for g in a.files.split(","):
            files += sorted(glob.glob(os.path.join(REPO, g)))
    ms = []
    for f in files:
        ms += list_mutants(f)
    if a.funcs:
        import re
        rx = re.compile(a.funcs)
        ms = [m for m in ms if rx.search(m[4].split(": ", 1)[0])]
    done = set()
    try:
        for l in open(os.path.join(HERE, "selftest/sweep", a.pid + ".jsonl")):
            d = json.loads(l)
            done.add((d["file"], d["line"], d["kind"], d["desc"]))
    except FileNotFoundError:
        pass
    ms = [m for m in ms if (os.path.relpath(m[0], REPO), m[3], m[2], m[4]) not in done]
    print(len(ms), "candidate mutants not yet tried")
    rnd = random.Random(a.seed * 1000003 + int(a.pid[1:]))
    rnd.shuffle(ms)
    ms = ms[: a.count]
    os.makedirs(os.path.join(HERE, "selftest/sweep"), exist_ok=True)
    outp = os.path.join(HERE, "selftest/sweep", a.pid + ".jsonl")
    tally = {}
    with cf.ThreadPoolExecutor(a.jobs) as ex, open(outp, "a") as out:
        for rec in ex.map(lambda m: run_one(a.pid, m, a.seed), ms):
            tally[rec["status"]] = tally.get(rec["status"], 0) + 1
            out.write(json.dumps(rec) + "\n")
            out.flush()
            print(rec["status"], rec["file"], rec["line"], rec["kind"], rec["desc"], flush=True)
    print("TALLY", a.pid, json.dumps(tally))


if __name__ == "__main__":
    main()
