#!/bin/bash
# usage: selftest/try_gomut.sh <ID> <file relative to /repo> <line> <kind> [nth]  — applies one gomut mutant to a
# scratch copy of /repo and runs the quick check of <ID> against it (scratch copy removed afterwards).
set -u
id=$1; f=$2; line=$3; kind=$4; nth=${5:-1}
here=$(cd "$(dirname "$0")/.." && pwd)
n=$("$here/bin/gomut" -list /repo/$f | awk -F'\t' -v l="$line" -v k="$kind" '$2==k && $3==l {print $1}' | sed -n "${nth}p")
[ -n "$n" ] || { echo "no such mutant"; exit 3; }
"$here/bin/gomut" -list /repo/$f | awk -F'\t' -v n="$n" '$1==n'
s=$(mktemp -d /tmp/vgm.XXXXXX); trap 'rm -rf "$s"' EXIT
rsync -a --exclude .git /repo/ "$s/repo/"
"$here/bin/gomut" -n "$n" /repo/$f > "$s/repo/$f"
VERIF_REPO="$s/repo" VERIF_NOEVIDENCE=1 "$here/verif" check "$id" quick 2>&1 | grep -E "^(VIOLATION|OK|INCONCL|KNOWN)|^  test=" | cut -c1-300 | head -${HEAD:-6}
