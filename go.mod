module verif

go 1.23

require (
	github.com/llir/llvm v0.3.6
	pgregory.net/rapid v1.3.0
)

require (
	github.com/llir/ll v0.0.0-20220802205332-9207a04d0275 // indirect
	github.com/mewmew/float v0.0.0-20201204173432-505706aa38fa // indirect
	github.com/pkg/errors v0.9.1 // indirect
	golang.org/x/mod v0.6.0-dev.0.20220419223038-86c51ed26bb4 // indirect
	golang.org/x/sys v0.0.0-20220722155257-8c9f86f7a55f // indirect
	golang.org/x/tools v0.1.12 // indirect
)

replace github.com/llir/llvm => /repo
